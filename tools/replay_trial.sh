#!/bin/bash
# replay_trial.sh <seeded dir> <prop>: apply the seeded change in a scratch worktree, run the check,
# then replay the reported (minimised) file twice in fresh processes: both must report the same
# violation and the recorded event-log digest must match ("reproduces exactly").
d="$1"; prop="$2"
wt=$(mktemp -d /tmp/rt.XXXXXX); rmdir $wt
git -C /repo worktree add -q --detach $wt HEAD || exit 2
( cd $wt && git apply $d/patch.diff ) || { echo "PATCH DOES NOT APPLY"; git -C /repo worktree remove --force $wt; exit 2; }
cd /verif
out=$(VERIF_REPO=$wt VERIF_NO_EVIDENCE=1 VERIF_NPROC=${NPROC:-4} VERIF_BUDGET=${BUDGET:-40} ./check $prop 2>&1)
rp=$(echo "$out" | grep -o "VIOLATION property=$prop replay=[^ ]*" | head -1 | sed 's/.*replay=//')
if [ -z "$rp" ]; then echo "$(basename $d): NO VIOLATION"; else
  a=$(VERIF_REPO=$wt ./check --replay $rp 2>&1 | grep -i "digest\|VIOLATION\|HARNESS" | tr '\n' ' ' | cut -c1-300)
  b=$(VERIF_REPO=$wt PYTHONHASHSEED=7 ./check --replay $rp 2>&1 | grep -i "digest\|VIOLATION\|HARNESS" | tr '\n' ' ' | cut -c1-300)
  c=$(./check --replay $rp 2>&1 | grep -i "no violation\|VIOLATION\|HARNESS" | tr '\n' ' ' | cut -c1-120)
  [ "$a" == "$b" ] && same=SAME || same=DIFFERENT
  echo "$(basename $d): $same | $a | unpatched: $c | plan_ops=$(/venv/bin/python -c "import json,sys; r=json.load(open('$rp')); print(len(r.get('case',{}).get('plan',[])), len(r.get('choices',[])))" 2>/dev/null)"
fi
git -C /repo worktree remove --force $wt
