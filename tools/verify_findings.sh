#!/bin/bash
# verify_findings.sh: for every fixed finding, replay its committed file against the tree just before its fix
# (scratch worktree, VERIF_REPO): it must FAIL there and PASS on /repo.  Lists the ones that need regenerating
# (tools/regen_finding.sh) because the harness has changed since the replay was recorded.
cd /verif
python3 - <<'PY' > /tmp/vf_list.txt
import json
for f in json.load(open('/verif/known_findings.json'))['findings']:
    if f['status'] == 'fixed':
        print(f['id'], f['commit'], f['property'], f['signature'], f['replay'])
PY
while read id commit prop sig replay; do
  wt=$(mktemp -d /tmp/vf.XXXXXX); rmdir $wt
  git -C /repo worktree add -q --detach $wt ${commit}^ || { echo "$id: cannot make worktree"; continue; }
  b=$(VERIF_REPO=$wt ./check --replay $replay 2>/dev/null | tail -1)
  h=$(./check --replay $replay 2>/dev/null | tail -1)
  git -C /repo worktree remove --force $wt
  case "$b" in VIOLATION*) bs=fails-before;; *) bs=STALE;; esac
  case "$h" in "no violation reproduced") hs=passes-now;; *) hs=FAILS-NOW;; esac
  echo "$id $commit $prop $sig : $bs $hs"
done < /tmp/vf_list.txt
