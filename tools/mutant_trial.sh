#!/bin/bash
# mutant_trial.sh <seeded dir> <prop> [tier]: verify the seeded change (tests, demo with/without) and
# run the check against it, all in a scratch worktree outside /repo and /verif (VERIF_REPO), so that
# /repo itself is never touched and several trials can run side by side.
d="$1"; prop="$2"; tier="${3:-quick}"
wt=$(mktemp -d /tmp/mt.XXXXXX); rmdir $wt
git -C /repo worktree add -q --detach $wt HEAD || exit 2
cd $wt
( PYTHONPATH=$wt timeout 600 /venv/bin/python $d/demo.py >$wt.clean.out 2>&1; echo "demo_clean_exit=$?" )
if ! git apply $d/patch.diff; then echo "PATCH DOES NOT APPLY"; cd /; git -C /repo worktree remove --force $wt; exit 2; fi
/venv/bin/python -m pytest -q -p no:cacheprovider --timeout=900 tests 2>&1 | tail -1
( PYTHONPATH=$wt timeout 600 /venv/bin/python $d/demo.py >$wt.patched.out 2>&1; echo "demo_patched_exit=$?" )
cd /verif && VERIF_REPO=$wt VERIF_NO_EVIDENCE=1 VERIF_NPROC=${NPROC:-8} ./check $prop --tier $tier 2>&1 | grep -v "^\[$prop\] tier" | tail -3 | cut -c1-300
cd /; git -C /repo worktree remove --force $wt; rm -f $wt.clean.out $wt.patched.out
