#!/bin/bash
# verify_mutant.sh <dir with patch.diff and demo.py> : confirm in a scratch worktree (outside /repo
# and /verif) that the patch applies, the baseline still gives 142 passed, the demo fails with the
# patch and passes without it.  Removes the worktree afterwards.
d="$1"; wt=$(mktemp -d /tmp/vm.XXXXXX); rmdir $wt
git -C /repo worktree add -q --detach $wt HEAD || exit 2
cd $wt
( PYTHONPATH=$wt timeout 300 /venv/bin/python $d/demo.py >/tmp/vm_clean.out 2>&1; echo "demo_clean_exit=$?" )
git apply $d/patch.diff || { echo "PATCH DOES NOT APPLY"; git -C /repo worktree remove --force $wt; exit 2; }
/venv/bin/python -m pytest -q -p no:cacheprovider --timeout=900 tests 2>&1 | tail -1
( PYTHONPATH=$wt timeout 300 /venv/bin/python $d/demo.py >/tmp/vm_patched.out 2>&1; echo "demo_patched_exit=$?" )
tail -2 /tmp/vm_patched.out | cut -c1-300
cd /; git -C /repo worktree remove --force $wt
