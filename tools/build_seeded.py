"""build_seeded.py <out_root> <log>...: turn verified seeded changes (dirs with patch.diff, demo.py,
README.md under <out_root>/Cxx/mN) and the logs of tools/mutant_trial.sh into /verif/seeded/<id>/ with
meta.json, and print the table for DESIGN.md."""
import json
import os
import re
import shutil
import sys

root = sys.argv[1]
tag = sys.argv[2]            # id prefix, e.g. r1 / r2
logs = sys.argv[3:]
NOTES = json.load(open('/verif/tools/seeded_notes.json')) if os.path.exists('/verif/tools/seeded_notes.json') else {}
entries = {}
for lg in logs:
    cur = None
    for line in open(lg, errors='replace'):
        m = re.match(r'== (\S+) -> (\S+)', line)
        if m:
            d, chk = m.groups()
            if not re.match(re.escape(root.rstrip('/')) + r'/C\d+/m\d+$', d):
                cur = None
                continue
            key = d.replace(root.rstrip('/') + '/', '')
            cur = entries.setdefault(key, dict(dir=d, checks=[]))
            cur['checks'].append(dict(check=chk, lines=[]))
            continue
        if cur is None:
            continue
        line = line.rstrip()
        if line.startswith('demo_clean_exit='):
            cur['demo_clean_exit'] = int(line.split('=')[1])
        elif line.startswith('demo_patched_exit='):
            cur['demo_patched_exit'] = int(line.split('=')[1])
        elif 'passed' in line and 'failed' in line:
            cur['baseline'] = line.strip()
        elif line.startswith('PATCH DOES NOT APPLY'):
            cur['applies'] = False
        elif line.startswith('['):
            cur['checks'][-1]['summary'] = line[:300]
            m = re.search(r'exit=(\d+)', line)
            if m:
                cur['checks'][-1]['exit'] = int(m.group(1))
        elif line.startswith('violation:'):
            cur['checks'][-1]['lines'].append(line[:300])
rows = []
for key in sorted(entries):
    e = entries[key]
    prop, mn = key.split('/')
    sid = f'{prop}-{tag}-{mn}'
    out = f'/verif/seeded/{sid}'
    os.makedirs(out, exist_ok=True)
    for f in ('patch.diff', 'patch.orig.diff', 'demo.py', 'README.md'):
        src = os.path.join(e['dir'], f)
        if os.path.exists(src):
            shutil.copy(src, os.path.join(out, f))
    readme = open(os.path.join(e['dir'], 'README.md'), errors='replace').read() if os.path.exists(os.path.join(e['dir'], 'README.md')) else ''
    caught = [c['check'] for c in e['checks'] if c.get('exit') == 1]
    valid = e.get('applies', True) and e.get('demo_clean_exit') == 0 and e.get('demo_patched_exit') not in (0, None) \
        and '142 passed' in e.get('baseline', '')
    note = NOTES.get(sid, '')
    meta = dict(
        id=sid, property=prop,
        breaks=f'{prop} (see README.md)',
        needs_to_manifest=' '.join(readme.split())[:900],
        rebased=os.path.exists(os.path.join(e['dir'], 'patch.orig.diff')),
        verified=dict(patch_applies_to_current_tree=e.get('applies', True), baseline_with_patch=e.get('baseline'),
                      demo_exit_without_patch=e.get('demo_clean_exit'), demo_exit_with_patch=e.get('demo_patched_exit'),
                      valid_on_current_tree=valid),
        what_was_run=[f'tools/mutant_trial.sh {e["dir"]} {c["check"]}  (scratch worktree of /repo HEAD via VERIF_REPO: '
                      'demo without patch, git apply, baseline pytest, demo with patch, ./check <prop> --tier quick)'
                      for c in e['checks']],
        check_results=[dict(check=c['check'], tier='quick', exit=c.get('exit'), summary=c.get('summary'),
                            first_violation=(c['lines'] or [None])[0]) for c in e['checks']],
        caught_by=caught, note=note)
    json.dump(meta, open(os.path.join(out, 'meta.json'), 'w'), indent=1)
    status = ('caught by ' + ', '.join(caught)) if caught else ('not valid on the current tree' if not valid else 'MISSED')
    first = ' '.join(readme.split())[:140].replace('|', '/')
    rows.append(f'| {sid} | {first} | {status}{" - " + note if note else ""} |')
print('| Id | Change (from its README) | Result (quick tier, current tree) |\n|---|---|---|')
print('\n'.join(rows))
