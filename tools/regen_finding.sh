#!/bin/bash
# regen_finding.sh <finding id> <fix commit> <prop> <signature> [seeds...]: regenerate the committed replay of
# a fixed finding with the current harness: search on the tree just before the fix (scratch worktree,
# VERIF_REPO), keep a minimised replay with that signature that FAILS before the fix and PASSES with it.
id="$1"; commit="$2"; prop="$3"; sig="$4"; shift 4; seeds="${@:-1 2 3 4 5 6}"
before=$(mktemp -d /tmp/rf_before.XXXXXX); rmdir $before
after=$(mktemp -d /tmp/rf_after.XXXXXX); rmdir $after
git -C /repo worktree add -q --detach $before ${commit}^ || exit 2
git -C /repo worktree add -q --detach $after ${commit} || exit 2
cd /verif
ok=0
for seed in $seeds; do
  rm -f replays/${prop}-*.json
  VERIF_REPO=$before VERIF_SEED=$seed VERIF_NO_EVIDENCE=1 ./check $prop >/dev/null 2>&1
  for f in replays/${prop}-*.json; do
    [ -f "$f" ] || continue
    s=$(python3 -c "import json,sys; print(json.load(open('$f'))['signature'])")
    [ "$s" = "$sig" ] || continue
    b=$(VERIF_REPO=$before ./check --replay $f 2>/dev/null | tail -1)
    a=$(VERIF_REPO=$after ./check --replay $f 2>/dev/null | tail -1)
    h=$(./check --replay $f 2>/dev/null | tail -1)
    case "$b" in VIOLATION*) ;; *) continue;; esac
    if [ "$a" = "no violation reproduced" ] && [ "$h" = "no violation reproduced" ]; then
      cp $f findings/$id.json; echo "$id: regenerated from seed $seed ($f): fails before $commit, passes with it and on HEAD"; ok=1; break 2
    fi
  done
done
[ $ok = 1 ] || echo "$id: NO suitable replay found (seeds $seeds)"
git -C /repo worktree remove --force $before; git -C /repo worktree remove --force $after
