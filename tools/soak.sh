#!/bin/bash
# soak.sh <first seed> <last seed> [tier]: run every check with other seeds; report anything but exit 0.
# Evidence files are not touched (VERIF_NO_EVIDENCE).  Replays of violations are copied to soak_out/.
tier="${3:-quick}"
mkdir -p soak_out
for seed in $(seq $1 $2); do
  for p in C01 C02 C03 C04 C05 C06 C07 C08 C09 C10 C11 C12 C13 C14 C15 C16 C17 C18 C19 C20; do
    out=$(VERIF_SEED=$seed VERIF_NO_EVIDENCE=1 ./check $p --tier $tier 2>&1)
    rc=$?
    echo "seed=$seed $p rc=$rc $(echo "$out" | tail -1 | cut -c1-150)"
    if [ $rc -ne 0 ]; then
      echo "$out" | grep -i "violation\|harness" | cut -c1-400
      for f in $(echo "$out" | grep -o "replay=[^ ]*" | cut -d= -f2); do cp "$f" soak_out/seed${seed}-$(basename $f) 2>/dev/null; done
    fi
  done
done
