"""make_finding_replay.py <family> <prop> <seed> <signature> <out.json>: minimise the failing run of
that seed (ignoring known-finding attribution) and store it as the committed replay of a finding."""
import json, os, random, sys, shutil
sys.path.insert(0, '/repo'); sys.path.insert(0, os.path.dirname(os.path.dirname(os.path.abspath(__file__))))
sys.setrecursionlimit(10000)
import logging; logging.disable(logging.CRITICAL)
from sim import runner
famname, prop, seed, sig, out = sys.argv[1], sys.argv[2], int(sys.argv[3]), sys.argv[4], sys.argv[5]
fam = runner.load_family(famname)
kf = fam.known_finding
fam.known_finding = lambda v, r: None
case = fam.gen(random.Random(seed), 'quick', prop)
res = runner.run_case(fam, case, seed=seed)
assert any(v.signature() == sig for v in res.violations), [v.signature() for v in res.violations]
case, choices, res, n = runner.minimise(fam, case, list(res.choices), sig, seed)
path = runner.write_replay(prop, famname, seed, case, choices, res, sig, 'quick', note=f'minimised in {n} runs')
shutil.move(path, out)
print(out, len(case['plan']), 'ops', len(choices), 'choices')
