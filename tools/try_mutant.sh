#!/bin/bash
# try_mutant.sh <patch.diff> <prop> [tier] : apply a seeded change to /repo, run the check, undo.
p="$1"; prop="$2"; tier="${3:-quick}"
cd /repo && git diff --quiet || { echo "/repo dirty"; exit 2; }
git -C /repo apply "$p" || exit 2
cd /verif && VERIF_NO_EVIDENCE=1 ./check $prop --tier $tier 2>&1 | grep -v "^\[$prop\] tier" | tail -${TAILN:-4}
git -C /repo checkout -- .
