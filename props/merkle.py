"""Family `merkle`: the real Merkle / MerkleCache over an asynchronous source served by the simulated
disk.  mode sequential (C12): seeded histories of initialise / extend / truncate (+ replacing the
truncated tail) issued one after the other; mode concurrent (C11): extension requests in flight
while truncate runs (what DB.header_mc sees during a reorganisation); mode branch_length (C12):
the declared non-simulation probe of power-of-two boundaries.  DESIGN.md 7/C11, C12."""
import asyncio
import hashlib
import os
import random

from props.common import Family
from sim.kernel import Sim, SimLoop, HarnessError
from sim.plan import Result, Violation
from sim.chaingen import dsha, merkle_root, merkle_fold

from electrumx.lib.merkle import Merkle, MerkleCache


def ref_branch(hashes, index):
    """Merkle branch from the Bitcoin definition (independent of electrumx.lib.merkle)."""
    hs = list(hashes)
    branch = []
    marks = []
    while len(hs) > 1:
        dup = False
        if len(hs) & 1:
            hs.append(hs[-1])
            dup = True
        sib = index ^ 1
        branch.append(hs[sib])
        marks.append(dup and sib == len(hs) - 1)
        hs = [dsha(hs[i] + hs[i + 1]) for i in range(0, len(hs), 2)]
        index >>= 1
    return branch, hs[0], marks


def leaf(i, gen):
    return hashlib.sha256(b'%d:%d' % (i, gen)).digest()


class MerkleFamily(Family):
    name = 'merkle'

    def gen(self, rng, tier, prop):
        # C12 says "in any order": that includes a truncate arriving while an extension is in flight
        mode = 'concurrent' if prop == 'C11' or rng.random() < 0.4 else 'sequential'
        n = rng.choice([1, 2, 3, 5, 8, 17, 33, 64, 100, 257, 600])
        ops = []
        cur = rng.randint(1, n)
        ops.append(('init', cur))
        for _ in range(rng.randint(3, 14)):
            r = rng.random()
            if r < 0.5:
                ln = rng.randint(1, n)
                ops.append(('query', ln, rng.randrange(ln), rng.random() < 0.3))
            elif r < 0.75:
                ops.append(('truncate', rng.randint(1, n), rng.random() < 0.7))
            else:
                ln = rng.randint(1, n)
                ops.append(('burst', [(rng.randint(1, n), rng.random()) for _ in range(rng.randint(2, 4))]))
        op = dict(op=mode, n=n, ops=ops, lat=rng.choice([0.0, 0.01, 1.0]),
                  seed=rng.getrandbits(32), target=prop, sweep=rng.choice(['up', 'shuffle', 'top']))
        if rng.random() < 0.15:
            # "every non-empty list of hashes": also lists in which hashes repeat (equal siblings that are no
            # duplicated padding nodes)
            op['alphabet'] = rng.choice([1, 2, 2, 3])
        return dict(plan=[op])

    def execute(self, case, chooser, trace=False, logs=False):
        op = case['plan'][0]
        res = Result()
        viol = []
        if op['op'] == 'branch_length':
            m = Merkle()
            for n in op['ns']:
                try:
                    got = m.branch_length(n)
                except Exception as e:      # noqa: B902
                    got = repr(e)
                if got != (n - 1).bit_length():
                    viol.append(('branch_length', f'branch_length({n}) = {got}, expected '
                                 f'{(n - 1).bit_length()} = ceil(log2(n))'))
            res.stats['evals'] = len(op['ns'])
            res.nontrivial = True
            res.isig = hash(tuple(op['ns']))
            res.digest = hashlib.sha256(repr(op['ns']).encode()).hexdigest()[:32]
            res.choices = []
            for c, msg in viol[:1]:
                res.violations.append(Violation('C12', c, msg))
            return res

        sim = Sim(chooser, preempt=False, trace=trace)
        loop = SimLoop(sim)
        asyncio.set_event_loop(loop)
        ch = sim.ch
        n = op['n']
        state = dict(gen=0)
        if op.get('alphabet'):
            arng = random.Random(op['seed'] ^ 0x5eed)
            amap = [arng.randrange(op['alphabet']) for _ in range(n)]
            if op['alphabet'] == 2 and arng.random() < 0.5:
                amap = [i % 2 for i in range(n)]

            def leaf(i, gen):       # noqa: F811
                return hashlib.sha256(b'%d:%d' % (amap[i], gen)).digest()
        else:
            leaf = globals()['leaf']
        leaves = [leaf(i, 0) for i in range(n)]
        merkle = Merkle()
        concurrent = op['op'] == 'concurrent'
        prop = op.get('target') or ('C11' if concurrent else 'C12')
        versions = [list(leaves)]       # every version of the underlying list

        async def source(start, count):
            # the data is obtained at some instant and arrives later (a thread job reading the headers file)
            if op['lat']:
                await asyncio.sleep(ch.delay(0.0, op['lat']))
            else:
                await asyncio.sleep(0)
            out = leaves[start:start + count]
            if len(out) != count:
                raise HarnessError(f'source asked for {start}+{count} of {len(leaves)}')
            if op['lat']:
                await asyncio.sleep(ch.delay(0.0, op['lat']))
            else:
                await asyncio.sleep(0)
            return out

        cache = MerkleCache(merkle, source)
        stats = dict(q=0)

        def check(ln, idx, tsc, got, lists, where):
            """got must equal the from-scratch answer for one of `lists`."""
            stats['q'] += 1
            if isinstance(got, Exception) and where == 'in flight' and op.get('lenient'):
                # (cases recorded before the in-flight oracle was tightened)
                res.probes['inflight.refused'] += 1
                return
            if isinstance(got, Exception):
                viol.append(('cache.raised', f'{where}: branch_and_root({ln},{idx}) raised {got!r}'))
                return
            branch, root = got
            for lst in lists:
                if ln > len(lst):
                    continue
                rb, rroot, marks = ref_branch(lst[:ln], idx)
                exp = [b'*' if (tsc and mk) else b for b, mk in zip(rb, marks)]
                if root == rroot and list(branch) == exp:
                    # cross-check the stateless implementation as well
                    sb, sroot = merkle.branch_and_root(lst[:ln], idx, tsc_format=tsc)
                    if sroot != rroot or list(sb) != exp or len(branch) != (ln - 1).bit_length():
                        viol.append(('merkle.definition', f'Merkle.branch_and_root(len {ln}, idx {idx}, '
                                     f'tsc={tsc}) disagrees with the definition'))
                    elif not tsc and merkle_fold(lst[idx], branch, idx) != root:
                        viol.append(('merkle.foldback', f'len {ln} idx {idx}'))
                    return
            viol.append(('cache.wrong', f'{where}: cache answer for (length {ln}, index {idx}, tsc={tsc}) '
                         f'differs from the from-scratch computation (cache length {cache.length}, '
                         f'depth_higher {cache.depth_higher}, level entries {len(cache.level)})'))

        async def query(ln, idx, tsc, lists_fn, where):
            ln = min(ln, len(leaves))
            idx = min(idx, ln - 1)
            before = list(versions)
            try:
                got = await cache.branch_and_root(ln, idx, tsc_format=tsc)
            except HarnessError:
                raise
            except Exception as e:      # noqa: B902
                got = e
            check(ln, idx, tsc, got, lists_fn(before), where)

        def truncate(ln, replace):
            ln = min(ln, len(leaves))
            cache.truncate(ln)
            if replace and ln < len(leaves):
                state['gen'] += 1
                for i in range(ln, len(leaves)):
                    leaves[i] = leaf(i, state['gen'])
                versions.append(list(leaves))
                del versions[:-4]

        async def main():
            for o in op['ops']:
                if o[0] == 'init':
                    await cache.initialize(min(o[1], len(leaves)))
                elif o[0] == 'query':
                    await query(o[1], o[2], o[3], lambda before: [leaves], 'sequential')
                elif o[0] == 'truncate':
                    truncate(o[1], o[2])
                elif o[0] == 'burst':
                    if not concurrent:
                        for ln, f in o[1]:
                            ln = min(ln, len(leaves))
                            await query(ln, int(f * ln) % ln, False, lambda before: [leaves], 'sequential')
                        continue
                    # extension requests in flight while truncate runs: each may be answered for any
                    # version of the list that existed during the request
                    tasks = []
                    for ln, f in o[1]:
                        ln = min(ln, len(leaves))
                        tasks.append(loop.create_task(query(
                            ln, int(f * ln) % ln, False,
                            lambda before: before + [v for v in versions if v not in before], 'in flight')))
                    await asyncio.sleep(ch.delay(0.0, op['lat'] or 0.001))
                    mode = ch.choose(3)
                    if mode == 0:
                        # overlapping extensions only: nothing is truncated
                        res.probes['concurrent_extensions_only'] += 1
                    else:
                        if mode == 1 and cache.length < len(leaves):
                            # a block above the cached length is undone while an extension past it waits
                            tl = cache.length + ch.choose(len(leaves) - cache.length)
                        else:
                            tl = 1 + ch.choose(len(leaves))
                        truncate(max(1, tl), True)
                        res.probes['truncate_during_inflight'] += 1
                    await asyncio.gather(*tasks)
            # afterwards (nothing in flight) only the current list qualifies - for every (length, index)
            rng = random.Random(op['seed'])
            pairs = [(ln, i) for ln in range(1, len(leaves) + 1) for i in range(ln)]
            if len(pairs) > 60:
                pairs = rng.sample(pairs, 54) + [(len(leaves), 0), (len(leaves), len(leaves) - 1),
                                                  (1, 0), (cache.length or 1, 0)]
            # order of the sweep: ascending lengths (every query extends the cache), shuffled, or the full
            # length first (every later query is answered from inside the cache)
            if op.get('sweep') in ('shuffle', 'top'):
                rng.shuffle(pairs)
            if op.get('sweep') == 'top':
                pairs.insert(0, (len(leaves), rng.randrange(len(leaves))))
            for ln, i in pairs:
                await query(ln, i, rng.random() < 0.2, lambda before: [leaves], 'final sweep')
                if viol:
                    break

        try:
            loop.run_until_complete(main())
        except HarnessError as e:
            res.harness_error = repr(e)
        finally:
            asyncio.set_event_loop(None)
            loop.close()
        for c, msg in viol[:1]:
            res.violations.append(Violation(prop if c.startswith('cache') else 'C12', c, msg))
        res.probes['queries'] = stats['q']
        res.nontrivial = stats['q'] >= 3
        res.isig = hash((op['op'], n, tuple(o[0] for o in op['ops']), op['seed'] % 1024))
        res.digest = sim.digest()
        res.choices = sim.ch.rec
        res.vt = sim.now
        res.stats['steps'] = sim.steps
        return res

    def describe(self, case):
        o = case['plan'][0]
        return dict(op=o['op'], n=o.get('n'), ops=str(o.get('ops'))[:300])


FAMILY = MerkleFamily()


def branch_length_probe(tier, seed):
    """Declared non-simulation probe (DESIGN.md section 9): branch_length on every power-of-two
    boundary up to 2**62."""
    from sim import runner
    ns = sorted({n for k in range(0, 63) for n in (2 ** k - 1, 2 ** k, 2 ** k + 1) if n >= 1})
    case = dict(plan=[dict(op='branch_length', ns=ns)])
    res = FAMILY.execute(case, None)
    out = dict(coverage=dict(branch_length_probe_values=len(ns)), violations=[])
    if res.violations:
        bad = [n for n in ns if Merkle().branch_length(n) != (n - 1).bit_length()]
        case = dict(plan=[dict(op='branch_length', ns=bad[:1])])
        res = FAMILY.execute(case, None)
        path = runner.write_replay('C12', 'merkle', 0, case, [], res, res.violations[0].signature(), tier,
                                   note=f'{len(bad)} of {len(ns)} boundary values wrong: {bad[:6]}...')
        out['violations'].append(dict(replay=path, known=None))
        print('violation:', res.violations[0])
    return out
