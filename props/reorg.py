"""Families over fork histories, shutdown and crashes of the real server:
  reorg     (C03)  fork histories x flush schedules, audited against RefIndex(final chain)
  shutdown  (C06)  SIGTERM at scheduler-chosen steps stratified over phases, reopen + audit
  crashfwd  (C04)  process death at a durable operation of forward indexing / flushing / recovery
  crashback (C05)  process death at a durable operation while blocks are being undone
  undo      (C15)  undo-information window x reorg limit x restarts x fork depth L-1/L/L+1
DESIGN.md section 7."""
import random

from props.common import Family, swarm_knobs, ntx_list
from props.index import IndexDriver
from sim.chaingen import RefIndex
from sim import audit as auditmod


def _is_flush_op(tag, detail):
    if tag in ('commit', 'put'):
        return True
    if tag == 'write':
        return '/meta/blocks/' not in detail[0]
    return False


class ReorgDriver(IndexDriver):
    LIVENESS_PROP = 'C03'
    AUDIT_PROPS = ('C01', 'C02', 'C03')

    FAMILY_PROP = dict(reorg='C03', shutdown='C06', crashfwd='C04', crashback='C05', undo='C15')

    def setup(self):
        super().setup()
        sim = self.w.sim
        self.ATTRIBUTE_TO = self.LIVENESS_PROP = self.FAMILY_PROP[self.case['family']]
        self.hazards = {}
        self.utxo_commits = []      # (dop number, height being committed)
        self.hist_backup_then_crash = None
        prev = sim.dop_observer

        def observe(tag, detail):
            prev(tag, detail)
            if tag == 'commit' and detail[0] == 'utxo':
                srv = self.w.server
                db = srv.db if srv else self.bare_db
                if db is not None and db.state is not None:
                    self.utxo_commits.append((sim.dops, db.state.height))
                if any(x.tag.endswith('backup_block') for x in sim.workers):
                    self.res.probes['backup_blocks'] += 1
            self.last_dop = (sim.dops, tag, detail)
        sim.dop_observer = observe
        self.bare_db = None
        self.last_dop = None
        self.exit_info = None
        self.crashes = []

    def teardown(self):
        super().teardown()
        p = self.res.probes
        fam = self.case.get('family')
        if fam == 'reorg':
            self.res.nontrivial = bool(p.get('backup_blocks', 0) >= 1 and p.get('audits'))
        elif fam == 'shutdown':
            self.res.nontrivial = bool(p.get('sigterm.worker_in_flight') and p.get('reopen_audits'))
        elif fam in ('crashfwd', 'crashback'):
            self.res.nontrivial = bool(p.get('crash.fired') and p.get('audits'))
        elif fam == 'undo':
            self.res.nontrivial = bool(p.get('undo.window_checked'))

    def _on_server_start(self, w):
        # count blocks undone (probe) without touching the repo: wrap the bound method per instance
        pass

    # -- admin RPC
    def admin(self):
        c = self.clients.get('admin')
        if c is None or not c.connected:
            c = self.w.new_client('admin', port=8000, addr=('127.0.0.1', None))
            self.clients['admin'] = c
            if not c.connect():
                return None
        return c

    def op_admin_reorg(self, op):
        """Forced reorg through a real LocalRPC session: `reorg n`."""
        def go():
            w = self.w
            srv = w.server
            if srv is None or srv.bp is None or not srv.bp.caught_up or srv.bp.state is None:
                self.probe('admin_reorg.skipped')
                return
            if srv.bp.reorg_count is not None or getattr(self, 'admin_pending', 0):
                # an earlier forced reorg is still queued or under way: its depth is not visible in the height
                # yet, and the two together could exceed the reorg limit (outside the quantifier)
                self.probe('admin_reorg.skipped_overlap')
                return
            h = srv.bp.state.height
            # ... and, like a fork, at most half the chain: a daemon-side fork that lands first lowers the height the
            # count will be applied to
            cap = min(w.k['reorg_limit'] - (max(self.hmax, h) - h), h // 2)
            n = min(op['n'], max(cap, 0))
            c = self.admin()
            if c is None:
                return
            self.pending_bg += 1
            token = self.admin_epoch = getattr(self, 'admin_epoch', 0)

            def done(rec):
                if token != self.admin_epoch:
                    return      # the request died with an earlier server incarnation
                self.pending_bg -= 1
                self.admin_pending -= 1
                if 'error' in rec:
                    self.res.notes.append(f'admin reorg error {rec["error"]}')
                else:
                    self.probe('admin_reorg.accepted')
                    self.mark('forced', n)
            self.admin_pending = getattr(self, 'admin_pending', 0) + 1
            rid = c.send('reorg', [n], cb=done)
            if rid is None:
                self.pending_bg -= 1
                self.admin_pending -= 1
        if op.get('at'):
            self._bg(op['at'], go)
        else:
            go()

    def op_admin_query(self, op):
        """The operator looks a script up through the LocalRPC `query` command (with its own, small limit)."""
        def go():
            from sim.chaingen import SCRIPTS
            if self.w.server is None:
                return
            c = self.admin()
            if c is None:
                return
            script = bytes.fromhex(op['script']) if 'script' in op else SCRIPTS[op.get('s', 0) % len(SCRIPTS)]
            c.send('query', [[script.hex()], op.get('limit', 1000)])
            self.probe('admin.query')
        if op.get('at'):
            self._bg(op['at'], go)
        else:
            go()

    def off_chain(self):
        """The server sits (stably) at a height >= the daemon's on a block the daemon's chain does
        not contain: it cannot know about the switch until the daemon's chain grows."""
        w = self.w
        srv = w.server
        if srv is None or srv.bp is None or srv.bp.state is None or w.daemon.tip is None:
            return False
        bp = srv.bp
        if bp.state_lock.locked() or w.sim.workers or bp.reorg_count is not None:
            return False
        hs = bp.state.height
        chain = w.daemon.chain()
        if hs < w.daemon.height:
            return False
        return hs >= len(chain) or chain[hs].hash != bp.state.tip

    def extend_daemon(self):
        w = self.w
        d = w.daemon
        hs = w.server.bp.state.height
        rng = random.Random(hs * 131 + d.height)
        tip = d.tip
        for _ in range(hs - d.height + 1):
            tip = w.gen.make_block(tip, rng, 1)
        d.set_tip(tip)
        self.hmax = max(self.hmax, tip.height)
        self.probe('quiesce.extended_daemon')

    def quiesce(self, limit=None):
        """C03's premise: the daemon's chain is longer than what the server had indexed.  After a
        switch to an equal or shorter branch the server cannot know yet; the daemon is extended."""
        w = self.w
        limit = self.sync_limit(limit)
        self.disarm()
        w.faults.enabled = False
        w.faults.script = []
        w.sim.stall_p = 0.0
        w.sim.line_stall_p = 0.0
        w.sim.queue_p = 0.0
        w.sim.stall_boost = None
        end = w.sim.now + limit
        if self.pending_bg:
            w.run(lambda: self.pending_bg == 0, limit)
        restarts = 0
        while w.sim.now < end:
            if w.server is None:
                if restarts >= 3:
                    return False
                restarts += 1
                self.probe('supervisor.restart')
                w.start()
            r = w.run(lambda: w.caught_up() or self.off_chain(), end - w.sim.now)
            if r == 'pred':
                if w.caught_up():
                    return True
                self.extend_daemon()
            elif r == 'timeout':
                return False
        return False

    def stored_state(self):
        st = self.w.store.dbs.get('utxo', {}).get(b'state')
        if not st:
            return None
        import ast
        return ast.literal_eval(st.decode())

    def stored_height(self):
        st = self.stored_state()
        return st['height'] if st else None

    def hazard_keys_c05(self):
        """Script hashes whose history the known C05 defect can truncate in this run: those
        touched by a block whose history rollback committed but whose UTXO rollback did not, if the
        daemon's chain still contains that block."""
        from sim.chaingen import hashx
        keys = set()
        chain_hashes = {b.hash for b in self.w.daemon.chain()}
        for blk in getattr(self, 'half_undone', []):
            if blk.hash not in chain_hashes:
                continue
            for t in blk.txs:
                for (_v, scr) in t.outs:
                    keys.add(hashx(scr))
                for op in t.prevouts():
                    src = self.w.daemon.known_txs.get(op[0])
                    if src is not None:
                        keys.add(hashx(src.outs[op[1]][1]))
        return keys

    # -- conditions on the server's phase, evaluated at scheduling steps
    def phase(self):
        w = self.w
        srv = w.server
        if srv is None or srv.bp is None:
            return 'none'
        tags = [x.tag for x in w.sim.workers]
        if any(t.endswith('backup_block') for t in tags):
            return 'backup'
        if any(t.endswith('flush_dbs') for t in tags):
            return 'flush_locked' if srv.bp.state_lock.locked() else 'flush_unlocked'
        if any(t.endswith('advance_block') for t in tags):
            for x in w.sim.workers:
                if x.tag.endswith('advance_block') and x.args:
                    blk = w.tree.by_hex.get(getattr(x.args[0], 'hex_hash', None))
                    if blk is not None and srv.bp.state is not None and blk.prev != srv.bp.state.tip:
                        return 'advance_nonconnecting'     # the job that is about to detect a reorg
            return 'advance'
        if tags:
            return 'otherjob'
        if w.dnet.inflight:
            return 'fetch'
        if srv.bp.caught_up and srv.bp.state is not None and \
                srv.bp.state.height == w.daemon.height:
            return 'idle'
        return 'other'

    def op_sigterm_when(self, op):
        """Deliver SIGTERM at the (skip+1)-th scheduling step at which the server is in phase
        `cond`; then wait for the process to exit."""
        w = self.w
        sim = w.sim
        if w.server is None:
            return
        state = dict(hits=0, fired=False)
        cond, skip = op['cond'], op.get('skip', 0)

        def hook():
            if state['fired'] or w.server is None or w.server.exit is not None:
                return
            ph = self.phase()
            if cond == 'any' or ph == cond or (cond == 'flush' and ph.startswith('flush')) or \
                    (cond == 'advance' and ph == 'advance_nonconnecting') or \
                    (cond == 'outage' and any(st != 'up' for st in w.faults.per_url.values())):
                state['hits'] += 1
                if state['hits'] > skip:
                    state['fired'] = True
                    state['phase'] = ph
                    state['workers'] = len(sim.workers)
                    if not w.sigterm():
                        # no handler installed yet: the default disposition kills the process
                        state['killed'] = True
                        sim.crash_now('SIGTERM before the handler was installed')
        sim.fast_seams = False
        sim.step_hooks.append(hook)
        try:
            r = w.run(lambda: state['fired'], op.get('window', 120.0))
            if not state['fired']:
                self.probe('sigterm.cond_not_met')
                state['fired'] = True
                state['phase'] = self.phase()
                state['workers'] = len(sim.workers)
                if not w.sigterm():
                    state['killed'] = True
                    w.crash()
            self.probe('sigterm.phase.' + state.get('phase', '?'))
            if state.get('killed') or r == 'crash':
                self.probe('sigterm.killed_before_handler')
                self.exit_info = None
                if w.server is not None:
                    w._after_crash()
                return
            if state.get('workers'):
                self.probe('sigterm.worker_in_flight')
            self.mark('sigterm', state.get('phase'))
            if r != 'exit' and r != 'crash':
                srv = w.server
                r = w.run(None, 900.0)
                if r == 'timeout':
                    self.violate('C06', 'shutdown.hangs', 'server did not exit within 900 virtual '
                                 f's of SIGTERM (phase {state.get("phase")})')
                    w.crash()
                    return
                self.exit_info = dict(bp_height=srv.bp.state.height if srv.bp and srv.bp.state
                                      else None, ok=srv.bp.ok if srv.bp else None,
                                      exit=w.server_exits[-1] if w.server_exits else None)
        finally:
            sim.step_hooks.remove(hook)
            sim.fast_seams = True

    def op_differential(self, op):
        """C03 literally: every observable equals what a server that only ever saw the final chain
        reports.  The server under test is snapshotted, then a fresh simulated server (no faults, no stalls,
        no cache-pressure flushes) indexes the final chain from scratch and is snapshotted too."""
        from sim.world import World
        from sim.kernel import Chooser
        from sim.chaingen import ALL_HASHX
        w = self.w
        if w.server is None or not w.caught_up():
            return
        ref = RefIndex(w.daemon.chain(), w.k['activation'])
        pool = list(dict.fromkeys(ALL_HASHX + list(ref.history)))
        pre = w.sim.preempt
        w.sim.preempt = False
        try:
            st, s1 = w.call(auditmod.snapshot(w.server.db, pool), timeout=3000.0)
        finally:
            w.sim.preempt = pre
        if st != 'ok':
            self.violate('C03', 'differential.snapshot_failed', f'{st} {s1!r}')
            return
        tip = w.daemon.tip
        knobs = dict(w.k, stall_p=0.0, line_p=0.0, loop_seam_p=0.0, fault_rate=0.0, preempt=False,
                     daemon_latency=(0.0, 0.001), stall_boost=None)
        w.finish()
        w2 = World(Chooser(w.sim.ch.seed + 1 if isinstance(w.sim.ch.seed, int) else 1), knobs)
        w2.tree = w.tree
        w2.daemon.tree = w.tree
        w2.daemon.set_tip(tip)
        try:
            w2.start()
            if w2.run(w2.caught_up, 3000.0) != 'pred':
                self.violate('C03', 'differential.fresh_server_stuck', 'the fresh server did not index the final '
                             f'chain: {w2.why_not_caught_up()} {w2.server_exits[-2:]}')
                return
            st, s2 = w2.call(auditmod.snapshot(w2.server.db, pool), timeout=3000.0)
            if st != 'ok':
                self.violate('C03', 'differential.snapshot_failed', f'fresh: {st} {s2!r}')
                return
        finally:
            w2.finish()
        self.probe('c03.differentials')
        for key in s1:
            if s1[key] != s2[key]:
                detail = ''
                if isinstance(s1[key], dict):
                    bad = [k for k in s1[key] if s1[key][k] != s2[key].get(k)]
                    detail = f' for {bad[0].hex() if bad and isinstance(bad[0], bytes) else bad[:1]}'
                self.violate('C03', 'differential.' + key, f'observable "{key}" differs{detail} between the server '
                             'that went through the history and a server that only ever saw the final chain')

    def branch_for_tip(self, tip, height):
        if height < 0:
            return []
        blk = self.w.tree.blocks.get(tip)
        if blk is None or blk.height != height:
            return None
        return blk.branch()

    def op_reopen_audit(self, op):
        """After the process exited or died: open the databases like a fresh process and compare
        with a clean index of the stored tip's chain."""
        w = self.w
        if w.server is not None:
            return
        props = tuple(op.get('props', ('C06',)))
        main = props[0]
        try:
            loop, db = w.open_bare()
        except BaseException as e:      # noqa: B902
            if type(e).__name__ in ('SimCrash', 'HarnessError', 'KeyboardInterrupt'):
                raise
            self.violate(main, 'reopen.raises', f'opening the database failed: {e!r}')
            w.sim.dead = True
            return
        self.bare_db = db
        try:
            h = db.state.height
            self.mark('reopen', h)
            exp_h = op.get('expect_height')
            if exp_h is not None and h != exp_h:
                self.violate(main, 'reopen.height', f'stored height {h} but {op.get("why", "")} '
                             f'{exp_h}')
            branch = self.branch_for_tip(db.state.tip, h)
            if branch is None:
                self.violate(main, 'reopen.tip_unknown', f'stored tip at height {h} is no block '
                             'the daemon ever served at that height')
                return
            if h >= 0 and op.get('audit', True):
                ref = RefIndex(branch, w.k['activation'])
                rng = random.Random(h * 31 + self.cur)
                pre = w.sim.preempt
                w.sim.preempt = False
                try:
                    mism, undo = w.bare_call(loop, auditmod.audit_index(db, ref, rng=rng), 3000.0)
                except Exception as e:      # noqa: B902
                    self.violate(main, 'reopen.audit_raised', f'{e!r}')
                    return
                finally:
                    w.sim.preempt = pre
                for m in mism:
                    # after an unclean stop the properties claim the whole index
                    self.violate(main, 'reopen.' + m.clause, m.detail, m.keys)
                self.probe('reopen_audits')
                self.reopened = dict(height=h, undo=undo)
        finally:
            self.bare_db = None
            w.close_bare(loop, db)

    def op_stop_check(self, op):
        """C06 oracle after a SIGTERM-triggered exit."""
        info = self.exit_info
        if self.w.server is not None or info is None:
            return
        ex = info.get('exit')
        if ex and ex[0] == 'exc':
            self.res.notes.append(f'shutdown raised {ex[1]!r}')
            self.probe('shutdown.exception.' + type(ex[1]).__name__)
        o = dict(op='reopen_audit', props=('C06',))
        clean = bool(ex) and ex[0] == 'ok'
        if info.get('bp_height') is not None and (info.get('ok') or clean):
            o.update(expect_height=info['bp_height'],
                     why='the block processor had completed blocks up to')
        self.op_reopen_audit(o)

    def fork_now(self, op):
        old = self.w.daemon.tip
        r = super().fork_now(op)
        if r is not None:
            self.old_tip = old
        return r

    def op_return_to_old(self, op):
        """The daemon goes back to the branch it was on before the latest fork (extended so that
        it is the longer one again)."""
        w = self.w
        old = getattr(self, 'old_tip', None)
        if old is None or old.hash == w.daemon.tip.hash:
            return
        cur = {b.hash: b.height for b in w.daemon.chain()}
        anc = old
        while anc is not None and anc.hash not in cur:
            anc = anc.parent
        depth = w.daemon.height - (anc.height if anc is not None else -1)
        if depth > self.fork_cap():
            self.probe('return.skipped_by_quantifier')
            return
        rng = random.Random(old.height)
        tip = old
        while tip.height <= w.daemon.height:
            tip = w.gen.make_block(tip, rng, 2)
        w.daemon.set_tip(tip)
        self.hmax = max(self.hmax, tip.height)
        self.mark('return', tip.height)
        self.probe('daemon.returned_to_old_branch')

    # -- crashes
    def op_crash_when(self, op):
        """Process death at the (skip+1)-th durable operation matching `cond`, while running for
        up to `window` virtual seconds (or until caught up)."""
        w = self.w
        sim = w.sim
        if w.server is None:
            w.start()
        cond, skip = op['cond'], op.get('skip', 0)
        state = dict(hits=0)

        def hook(tag, detail):
            if cond == 'flushop':
                ok = _is_flush_op(tag, detail)
            elif cond == 'backupop':
                ok = _is_flush_op(tag, detail) and any(x.tag.endswith('backup_block')
                                                       for x in sim.workers)
            elif cond == 'recoveryop':
                ok = tag == 'commit' and not sim.workers
            else:
                ok = True
            if tag in ('dbcreate', 'mkdir') or '/db/meta' not in w.fs.dirs or \
                    (tag in ('write', 'trunc') and detail[0] == '/db/COIN' if tag == 'write'
                     else tag == 'trunc' and detail == '/db/COIN'):
                ok = False      # creating the database directory is not "indexing or a flush"
            if ok:
                state['hits'] += 1
                if state['hits'] > skip:
                    state['tag'] = tag
                    state['detail'] = detail
                    state['backup'] = any(x.tag.endswith('backup_block') for x in sim.workers)
                    return True
            if _is_flush_op(tag, detail):
                # (block files being downloaded meanwhile - after a restart the blocks to undo are fetched again -
                # do not come between the two commits of one flush_backup)
                state['prev'] = (tag, detail)
            return False
        sim.crash_hook = hook
        w.fs.tear = op.get('tear')
        try:
            r = w.run(w.caught_up if op.get('until_caught_up', True) else None,
                      op.get('window', 300.0))
        finally:
            sim.crash_hook = None
        self.crash_hits = state['hits']
        if r != 'crash':
            self.probe('crash.not_reached')
            return
        self.probe('crash.fired')
        tag = state.get('tag')
        self.probe('crash.at.' + str(tag))
        self.mark('crash', tag, state['detail'][0] if isinstance(state.get('detail'), tuple) else None)
        failed = sim.dops
        self.utxo_commits = [(n, h) for (n, h) in self.utxo_commits if n < failed]
        applied = [h for (n, h) in self.utxo_commits]
        if tag == 'commit' and state['detail'][0] == 'utxo' and state.get('backup') and \
                state.get('prev') and state['prev'][0] == 'commit' and state['prev'][1][0] == 'hist':
            # hazard recogniser: death between the history rollback commit and the UTXO commit of
            # one flush_backup; the block being undone is the one still stored as tip
            self.probe('hazard.crash_between_history_and_utxo_rollback')
            st = self.stored_state()
            blk = self.w.tree.blocks.get(st['tip']) if st else None
            if blk is not None:
                self.half_undone = getattr(self, 'half_undone', []) + [blk]
        self.crashes.append(dict(dop=failed, tag=tag, detail=state.get('detail'),
                                 applied_height=applied[-1] if applied else -1,
                                 last_commits=self.utxo_commits[-3:]))

    def op_ioerr_when(self, op):
        """A transient disk error (ENOSPC: the operation fails, nothing of it is applied) at the (skip+1)-th
        durable operation matching `cond`.  The server either carries on or exits on the exception - through
        its own shutdown path, which flushes "if safe" - and whatever it leaves behind must reopen as a clean
        index (op reopen_audit / sync afterwards)."""
        w = self.w
        sim = w.sim
        if w.server is None:
            w.start()
        cond, skip = op['cond'], op.get('skip', 0)
        state = dict(hits=0, fired=False)

        def hook(tag, detail):
            if state['fired']:
                return False
            ok = _is_flush_op(tag, detail) if cond == 'flushop' else True
            if cond == 'blockfile':
                # a write of a downloaded block's part to its file under meta/blocks
                ok = tag == 'write' and '/blocks/' in str(detail[0])
            if tag in ('dbcreate', 'mkdir') or '/db/meta' not in w.fs.dirs:
                ok = False
            if ok:
                state['hits'] += 1
                if state['hits'] > skip:
                    state['fired'] = True
                    state['tag'] = tag
                    state['detail'] = detail
                    state['dop'] = sim.dops
                    return True
            return False
        sim.ioerr_hook = hook
        exits_before = len(w.server_exits)
        try:
            r = w.run(lambda: state['fired'] and (w.server is None or w.caught_up()), op.get('window', 300.0))
        finally:
            sim.ioerr_hook = None
        if not state['fired']:
            self.probe('ioerr.not_reached')
            return
        self.probe('ioerr.fired')
        # the failed operation applied nothing: it is no commit
        self.utxo_commits = [(n, h) for (n, h) in self.utxo_commits if n != state['dop']]
        self.probe('ioerr.at.' + str(state.get('tag')))
        self.mark('ioerr', state.get('tag'))
        if w.server is not None:
            w.run(None, 30.0)       # the exception may take a moment to bring the server down
        if w.server is None:
            self.probe('ioerr.server_exited')
            self.exit_info = None
            self.op_reopen_audit(dict(op='reopen_audit', props=(op.get('prop', 'C04'),)))
        else:
            self.probe('ioerr.server_survived')

    def op_oom_when(self, op):
        """Out of memory in the middle of a flush: the (skip+1)-th put / delete queued into a write batch by
        the running server fails with MemoryError (raised out of the middle of the `with` block), and the
        process is killed `after` durable operations later (1, 2, 3).  The crash oracle applies as for any other
        death - with one restriction that keeps it to what the crash properties state: what the server's own
        exception path does with its half-consumed in-memory state is not judged, so the run is left unjudged
        as soon as a *different* UTXO batch is committed between the failure and the death."""
        w = self.w
        sim = w.sim
        if w.server is None:
            w.start()
        skip, after = op.get('skip', 0), op.get('after', 2)
        state = dict(hits=0, fired=False, since=0, other=False)

        def ahook(tag, detail):
            if state['fired'] or '/db/meta' not in w.fs.dirs or w.server is None:
                return False
            state['hits'] += 1
            if state['hits'] > skip:
                state.update(fired=True, batch=detail[1], tag=tag, db=detail[0], dop=sim.dops)
                return True
            return False

        def chook(tag, detail):
            if not state['fired'] or state['other']:
                return False
            if tag == 'commit' and detail[0] == 'utxo' and sim.commit_batch is not state['batch']:
                # the exception path of the server itself writes a further UTXO batch: not a crash property
                state['other'] = True
                return False
            state['since'] += 1
            if state['since'] >= after:
                state['ctag'], state['detail'] = tag, detail
                return True
            return False
        sim.alloc_hook, sim.crash_hook = ahook, chook
        w.fs.tear = op.get('tear')
        try:
            r = w.run(lambda: state['fired'] and (state['other'] or w.server is None), op.get('window', 300.0))
        finally:
            sim.alloc_hook = sim.crash_hook = None
        if not state['fired']:
            self.probe('oom.not_reached')
            return
        self.probe('oom.fired')
        self.probe(f"oom.at.{state['db']}.{state['tag']}")
        self.mark('oom', state['db'], state['tag'])
        if r != 'crash' and w.server is not None and not state['other']:
            w.run(None, 30.0)       # the exception may take a moment to bring the server down
        if r != 'crash' and (state['other'] or w.server is not None):
            # the process lived on, or wrote another UTXO batch in its exception path: what that leaves behind
            # is not a crash property - the rest of the run is not judged
            self.probe('oom.unjudged')
            self.abandoned = True
            return
        if r != 'crash':
            # the exception ended the process before the kill: death all the same, everything committed so far
            # was applied
            self.probe('oom.server_exited')
            self.exit_info = None
            applied = [h for (n, h) in self.utxo_commits]
            self.crashes.append(dict(dop=sim.dops + 1, tag='exit-on-MemoryError', detail=None,
                                     applied_height=applied[-1] if applied else -1,
                                     last_commits=self.utxo_commits[-3:]))
            return
        self.probe('oom.crash_fired')
        failed = sim.dops
        self.utxo_commits = [(n, h) for (n, h) in self.utxo_commits if n < failed]
        applied = [h for (n, h) in self.utxo_commits]
        self.crashes.append(dict(dop=failed, tag=state.get('ctag'), detail=state.get('detail'),
                                 applied_height=applied[-1] if applied else -1,
                                 last_commits=self.utxo_commits[-3:]))

    def _on_server_end(self, w):
        self.drop_admin_requests()
        # C03 / C15: a fork inside the property's quantifier "can be carried out" - the server must not stop on an
        # exception of its own over it.  Exits that were asked for (SIGTERM), injected (disk full, out of memory)
        # or are the expected refusal of a fork deeper than the limit are not judged.
        ex = w.server_exits[-1] if w.server_exits else None
        srv = getattr(w, 'last_server', None)
        if ex and ex[0] == 'exc' and type(ex[1]).__name__ == 'DaemonError':
            # e.g. the daemon's chain got shorter between two calls ("block height out of range"): the daemon's
            # doing, an operator restarts the server (and the supervisor here does)
            self.probe('server_exit.DaemonError')
        elif ex and ex[0] == 'exc' and self.case.get('family') in ('reorg', 'undo') and \
                not getattr(self, 'exit_expected', False) and not getattr(srv, 'sigterm_sent', False):
            self.violate(self.ATTRIBUTE_TO, 'server.died', f'the server stopped on {ex[1]!r} while following the '
                         f'daemon (height {w.daemon.height}) through chain events inside the reorg limit')

    def drop_admin_requests(self):
        # an admin request in flight dies with the server
        self.pending_bg -= getattr(self, 'admin_pending', 0)
        self.admin_pending = 0
        self.admin_epoch = getattr(self, 'admin_epoch', 0) + 1

    def op_crash_check(self, op):
        """C04 oracle after a crash: reopen, height == last applied UTXO commit, clean index."""
        if self.w.server is not None or not self.crashes:
            return
        c = self.crashes[-1]
        self.op_reopen_audit(dict(op='reopen_audit', props=(op.get('prop', 'C04'),),
                                  expect_height=c['applied_height'],
                                  why=f'the last UTXO batch applied before the crash (at {c["tag"]} '
                                      f'{c["detail"]}) committed height',
                                  audit=op.get('audit', True)))


class UndoDriver(ReorgDriver):
    """C15: the undo-information window."""

    def undo_heights(self):
        import struct
        d = self.w.store.dbs.get('utxo')
        if d is None:
            return []
        return sorted(struct.unpack('>I', k[1:])[0] for k in d.irange(b'U', b'V', inclusive=(True, False))
                      if len(k) == 5)

    def op_undo_check(self, op):
        """Caught up at height H: an undo row exists for every height in [max(1, H-L+1), H]."""
        w = self.w
        if not w.caught_up():
            return
        H = w.daemon.height
        L = w.k['reorg_limit']
        have = set(self.undo_heights())
        need = [h for h in range(max(1, H - L + 1), H + 1) if h not in have]
        self.probe('undo.window_checked')
        self.mark('undo', H, L)
        if need:
            self.violate('C15', 'undo.missing', f'caught up at height {H} with reorg limit {L}: no '
                         f'undo information for heights {need[:8]} (have {sorted(have)[-12:]})')

    def op_open_check(self, op):
        """Right after the databases were opened at stored height h: nothing below h-L+1."""
        w = self.w
        if w.server is not None:
            return      # only a fresh start is judged: rows legitimately accumulate while running
        before = set(self.undo_heights())
        w.start()
        r = w.run(lambda: w.server is not None and w.server.bp is not None
                  and w.server.bp.state is not None, 120.0)
        if r != 'pred':
            return
        h = w.server.db.state.height
        L = w.k['reorg_limit']
        low = [x for x in self.undo_heights() if x < h - L + 1]
        self.probe('undo.open_checked')
        lost = [x for x in range(max(1, h - L + 1), h + 1) if x in before and x not in
                set(self.undo_heights())]
        if before and max(before) > h:
            self.probe('undo.open_with_rows_above_tip')
        if lost:
            self.violate('C15', 'undo.window_pruned', f'opened at height {h} with reorg limit {L}: undo '
                         f'rows for heights {lost[:8]} inside the window existed before the stop and '
                         'were removed on start-up')
        if low:
            self.violate('C15', 'undo.not_pruned', f'opened at height {h} with reorg limit {L}: undo '
                         f'rows for heights {low[:8]} below the window were not removed')

    def op_snapshot(self, op):
        w = self.w
        self.op_stop(op)
        self.snap = (w.fs.snapshot(), w.store.snapshot(), w.daemon.tip, self.hmax)

    def op_restore(self, op):
        w = self.w
        if w.server is not None:
            w.crash()
        fs, st, tip, hmax = self.snap
        w.fs.restore(fs)
        w.store.restore(st)
        w.daemon.mempool = {}
        w.daemon.set_tip(tip)
        self.hmax = hmax
        self.pending_bg = max(0, self.pending_bg)

    def op_fork_exact(self, op):
        """A fork of depth L+delta right now (the server is caught up and, for delta=+1, freshly
        restarted).  depth <= L must complete; depth L+1 after a restart must be refused and leave a
        clean index of the stored height."""
        w = self.w
        L = w.k['reorg_limit']
        depth = L + op['delta']
        H = w.daemon.height
        if depth < 1 or H < 2 * depth or not w.caught_up():
            self.probe('fork_exact.skipped')
            return
        chain = w.daemon.chain()
        base = chain[H - depth]
        rng = self.rng_for(op)
        orphaned = [t for b in chain[H - depth + 1:] for t in b.txs if not t.is_coinbase]
        tip = base
        for i in range(depth + 1):
            include = [t for t in orphaned if rng.random() < 0.5]
            tip = w.gen.make_block(tip, rng, 2, include=include)
        w.daemon.set_tip(tip)
        self.probe('fork_exact.delta%+d' % op['delta'])
        self.mark('fork_exact', op['delta'])
        if op['delta'] <= 0:
            self.hmax = max(self.hmax, tip.height)
            self.op_sync(dict(op='sync'))
            return
        # depth L+1: refusal expected
        stored_before = self.stored_height()
        self.exit_expected = True
        try:
            r = w.run(lambda: w.caught_up(), 300.0)
        finally:
            self.exit_expected = False
        if r == 'pred':
            self.violate('C15', 'undo.window_too_wide', f'a fork of depth {depth} = limit+1 right '
                         'after a restart was carried out: undo information older than the window '
                         'had not been removed')
            return
        if r == 'exit':
            ex = w.server_exits[-1]
            self.probe('fork_exact.refused.' + (type(ex[1]).__name__ if ex[1] else ex[0]))
        else:
            w.crash()
            self.probe('fork_exact.refused.no_exit')
        self.op_reopen_audit(dict(op='reopen_audit', props=('C15',)))
        self.res.notes.append(f'refused at stored height {self.stored_height()} (before {stored_before})')


class ReorgFamily(Family):
    name = 'reorg'
    driver = ReorgDriver

    def execute(self, case, chooser, trace=False, logs=False):
        if case.get('enumerate') and chooser.replay is None:
            return self.execute_enumeration(case, chooser)
        d = self.driver(case, chooser, trace=trace, logs=logs)
        res = d.run()
        res.hazard_keys = {'C05-backup-crash': d.hazard_keys_c05()}
        return res

    def execute_enumeration(self, case, chooser):
        """Fault enumeration inside one generated run: a reference pass counts the durable operations
        matching the crash condition, then the same seed is re-run once per position (the prefix up to
        the crash is identical because no choice depends on the crash)."""
        import copy
        from sim.kernel import Chooser
        from sim.plan import Result
        idx = next(i for i, o in enumerate(case['plan']) if o['op'] == 'crash_when')
        ref_case = copy.deepcopy(case)
        ref_case.pop('enumerate')
        ref_case['plan'][idx]['skip'] = 10 ** 9
        ref = self.driver(ref_case, Chooser(chooser.seed))
        ref_res = ref.run()
        n = getattr(ref, 'crash_hits', 0)
        out = Result()
        out.probes.update(ref_res.probes)
        out.stats.update(ref_res.stats)
        out.vt = ref_res.vt
        out.violations.extend(ref_res.violations)
        out.hazard_keys = {'C05-backup-crash': ref.hazard_keys_c05()}
        positions = list(range(n)) if n <= 160 else sorted(set(int(i * n / 160) for i in range(160)))
        tears = [None, 0.0, 0.5, 0.999]
        sigs = []
        for j, pos in enumerate(positions):
            sub = copy.deepcopy(ref_case)
            sub['plan'][idx]['skip'] = pos
            sub['plan'][idx]['tear'] = tears[j % len(tears)]
            d = self.driver(sub, Chooser(chooser.seed))
            r = d.run()
            r.hazard_keys = {'C05-backup-crash': d.hazard_keys_c05()}
            out.probes.update(r.probes)
            out.stats.update(r.stats)
            out.vt += r.vt
            out.probes['enum.positions'] += 1
            sigs.append(r.isig)
            if r.harness_error:
                out.harness_error = r.harness_error
            for v in r.violations:
                if self.known_finding(v, r):
                    out.probes['enum.known_finding_hits'] += 1
                    continue
                v.repro = (sub, list(r.choices))
                out.violations.append(v)
            if len(out.violations) >= 3:
                break
        out.probes['enum.runs'] += 1
        out.digest = ref_res.digest
        out.choices = ref_res.choices
        out.nontrivial = bool(out.probes.get('crash.fired'))
        out.isig = hash(tuple(sigs)) & 0xffffffffffff
        out.stats['steps'] = out.stats.get('steps', 0)
        return out

    def known_finding(self, v, res):
        if v.prop == 'C05' and v.clause in ('limited_history', 'raw.hist', 'raw.hist.missing'):
            keys = res.hazard_keys.get('C05-backup-crash') or set()
            if v.keys and set(v.keys) <= keys:
                return 'C05-backup-crash'
        return None

    def _base(self, rng, tier, n0_choices):
        k = swarm_knobs(rng)
        n0 = rng.choice(n0_choices)
        k['activation'] = rng.randint(1, n0 + 6)
        if n0 > 15 and k['chunk_size'] < 64:
            k['chunk_size'] = 64
        plan = [dict(op='mine', n=n0, ntx=ntx_list(rng, n0), seed=rng.getrandbits(32), keep=True),
                dict(op='start', keep=True),
                dict(op='poker', period=rng.choice([(0.01, 0.3), (0.05, 2.0), (0.5, 10.0)]),
                     p_full=rng.choice([0.2, 0.5, 0.8]))]
        return k, n0, plan

    def _event(self, rng, k, at_max=6.0):
        r = rng.random()
        at = round(rng.uniform(0.0, at_max), 3) if rng.random() < 0.7 else 0
        if r < 0.45:
            d = rng.choice([1, 1, 2, 2, 3, 5, 6, 8, k['reorg_limit']])
            extra = 1 if rng.random() < 0.8 else rng.choice([0, -1, 2, 3])
            return dict(op='fork', depth=d, extra=extra, ntx=ntx_list(rng, 4),
                        remine=rng.choice([0.0, 0.5, 1.0]), at=at, seed=rng.getrandbits(32))
        if r < 0.75:
            n = rng.randint(1, 4)
            return dict(op='mine', n=n, ntx=ntx_list(rng, n), at=at, seed=rng.getrandbits(32))
        return dict(op='admin_reorg', n=rng.choice([0, 1, 1, 2, 3, k['reorg_limit']]), at=at)

    def gen(self, rng, tier, prop):
        k, n0, plan = self._base(rng, tier, [6, 10, 16, 25, 40])
        if rng.random() < 0.5:
            plan.append(dict(op='sync'))
        for _ in range(rng.randint(1, 3)):
            if rng.random() < 0.3:
                # a clean restart first: block files are gone, caches are cold, undo rows were pruned
                plan.append(dict(op='restart'))
            for _ in range(rng.randint(1, 4)):
                plan.append(self._event(rng, k))
            if rng.random() < 0.3:
                plan.append(dict(op='wait', dt=round(rng.uniform(0.1, 20.0), 2)))
            plan.append(dict(op='mine', n=1, ntx=[2], seed=rng.getrandbits(32)))
            plan.append(dict(op='sync'))
        if rng.random() < 0.15:
            # motif: a small reorg limit; the daemon finds a few blocks and - while the server is still fetching /
            # indexing that batch (slow disk or slow daemon) - reorganises them away onto a branch that is longer
            # than the limit: blocks of the abandoned branch that were prefetched earlier are indexed after the
            # daemon's height has been polled again (by the mempool tracker, say)
            L = k['reorg_limit'] = rng.choice([1, 2, 2, 3])
            k['stall_p'] = rng.choice([0.05, 0.2])
            k['preempt'] = True
            k['daemon_latency'] = rng.choice([(0.01, 1.0), (0.0005, 6.0)])
            plan.append(dict(op='sync'))
            for _ in range(rng.randint(1, 3)):
                n = rng.randint(2, 6)
                plan.append(dict(op='mine', n=n, ntx=ntx_list(rng, n), seed=rng.getrandbits(32),
                                 at=round(rng.uniform(0.0, 1.0), 3)))
                plan.append(dict(op='fork', depth=rng.randint(1, L), extra=rng.choice([L, L + 1, L + 2]),
                                 ntx=ntx_list(rng, 4), remine=rng.choice([0.0, 0.5, 1.0]),
                                 at=round(rng.uniform(1.0, 12.0), 3), seed=rng.getrandbits(32)))
                plan.append(dict(op='wait', dt=round(rng.uniform(2.0, 15.0), 2)))
                if rng.random() < 0.5:
                    plan.append(dict(op='mine', n=1, ntx=[2], seed=rng.getrandbits(32)))
                    plan.append(dict(op='sync'))
            plan.append(dict(op='mine', n=1, ntx=[2], seed=rng.getrandbits(32)))
            plan.append(dict(op='sync'))
        if rng.random() < (0.35 if tier == 'thorough' else 0.12):
            plan.append(dict(op='differential'))
        return dict(family='reorg', knobs=k, plan=plan)


class ShutdownFamily(ReorgFamily):
    name = 'shutdown'

    def gen(self, rng, tier, prop):
        k, n0, plan = self._base(rng, tier, [6, 12, 25, 40])
        conds = ['advance', 'flush', 'flush', 'backup', 'fetch', 'idle', 'any', 'otherjob',
                 'advance_nonconnecting', 'outage']
        for _ in range(rng.randint(1, 3)):
            cond = rng.choice(conds)
            if cond == 'outage':
                # completed but unflushed blocks in memory, every daemon URL unreachable (or warming up / refusing)
                # for a while - long enough for retries to back off and fail over -, shutdown during the outage
                if rng.random() < 0.5:
                    plan.append(dict(op='sync'))
                    plan.append(dict(op='poker', on=False))
                plan.append(dict(op='mine', n=rng.randint(2, 8), ntx=ntx_list(rng, 5), seed=rng.getrandbits(32)))
                plan.append(dict(op='daemon_outage', state=rng.choice(['down', 'down', 'warming', 'refusing']),
                                 which=rng.choice(['all', 'all', 0]), dt=rng.choice([15.0, 40.0, 90.0]),
                                 at=round(rng.uniform(0.0, 3.0), 3)))
                plan.append(dict(op='sigterm_when', cond='outage', skip=rng.choice([0, 3, 10, 30, 60, 100, 150]),
                                 window=rng.choice([30.0, 120.0])))
                plan.append(dict(op='stop_check'))
                plan.append(dict(op='start'))
                continue
            if cond in ('backup', 'idle', 'flush') and rng.random() < 0.7:
                # caught up first, then something for the server to chew on
                plan.append(dict(op='sync'))
            for _ in range(rng.randint(0, 3)):
                plan.append(self._event(rng, k, at_max=3.0))
            if cond == 'backup':
                plan.append(dict(op='fork', depth=rng.choice([1, 2, 3]), extra=1, ntx=[3],
                                 remine=0.5, seed=rng.getrandbits(32)))
            if cond == 'advance_nonconnecting':
                # completed but unflushed blocks, then a fork discovered mid-batch
                plan.append(dict(op='poker', on=False))
                plan.append(dict(op='mine', n=rng.randint(2, 6), ntx=ntx_list(rng, 4), seed=rng.getrandbits(32)))
                plan.append(dict(op='fork', depth=rng.choice([1, 2]), extra=1, ntx=[3], remine=0.5,
                                 at=round(rng.uniform(0.0, 7.0), 3), seed=rng.getrandbits(32)))
            plan.append(dict(op='sigterm_when', cond=cond, skip=rng.choice([0, 0, 1, 2, 5, 11, 30]),
                             window=rng.choice([30.0, 120.0])))
            plan.append(dict(op='stop_check'))
            plan.append(dict(op='start'))
        plan.append(dict(op='sync'))
        return dict(family='shutdown', knobs=k, plan=plan)


class CrashFwdFamily(ReorgFamily):
    name = 'crashfwd'

    def gen(self, rng, tier, prop):
        k, n0, plan = self._base(rng, tier, [4, 8, 15, 30])
        k['fault_rate'] = rng.choice([0.0, 0.0, 0.05])
        for _ in range(rng.randint(1, 3)):
            if rng.random() < 0.4:
                plan.append(dict(op='sync'))
            for _ in range(rng.randint(0, 3)):
                n = rng.randint(1, 5)
                plan.append(dict(op='mine', n=n, ntx=ntx_list(rng, n), at=round(rng.uniform(0, 3), 3),
                                 seed=rng.getrandbits(32)))
            if rng.random() < 0.15:
                # the process dies of a disk error instead (ENOSPC at one durable operation): its own shutdown
                # path runs, what it leaves must reopen as a clean index
                plan.append(dict(op='ioerr_when', cond=rng.choice(['flushop', 'flushop', 'anyop']),
                                 skip=rng.choice([0, 1, 2, 3, 4, 5, 6, 7, 8, 10, 13, 17, 25, 40]), window=300.0,
                                 prop='C04'))
                plan.append(dict(op='start'))
                continue
            if rng.random() < 0.12:
                # out of memory while a write batch is being assembled, killed a few durable operations later
                plan.append(dict(op='oom_when', skip=rng.choice([0, 1, 2, 3, 5, 8, 13, 21, 34, 55, 89, 144]),
                                 after=rng.choice([1, 2, 2, 2, 3, 4]), tear=rng.choice([None, 0.0, 0.5, 0.999]),
                                 window=300.0))
                plan.append(dict(op='crash_check', prop='C04'))
                plan.append(dict(op='start'))
                continue
            plan.append(dict(op='crash_when', cond=rng.choice(['flushop'] * 6 + ['anyop', 'recoveryop']),
                             skip=rng.choice([0, 1, 2, 3, 4, 5, 6, 7, 8, 10, 13, 17, 25, 40]),
                             tear=rng.choice([None, 0.0, 0.5, 0.999]), window=300.0))
            plan.append(dict(op='crash_check', prop='C04'))
            plan.append(dict(op='start'))
        plan.append(dict(op='sync'))
        if tier == 'thorough' and rng.random() < 0.5:
            # fault enumeration: one crash operation, every position of it
            first = next((i for i, o in enumerate(plan) if o['op'] == 'crash_when'), None)
            if first is None:
                return dict(family='crashfwd', knobs=k, plan=plan)
            plan = plan[:first + 3] + [dict(op='sync')]
            plan[first]['cond'] = rng.choice(['flushop', 'flushop', 'anyop'])
            return dict(family='crashfwd', knobs=k, plan=plan, enumerate=True)
        return dict(family='crashfwd', knobs=k, plan=plan)


class CrashBackFamily(ReorgFamily):
    name = 'crashback'

    def gen(self, rng, tier, prop):
        k, n0, plan = self._base(rng, tier, [8, 12, 20, 30])
        k['reorg_limit'] = rng.choice([3, 5, 10, 50])
        plan.append(dict(op='sync', keep=True))
        for _ in range(rng.randint(1, 2)):
            if rng.random() < 0.35:
                # a clean restart first: the block files of the recent blocks are gone, so the blocks to undo have
                # to be downloaded again - slowly - while the first of them are already being undone
                plan.append(dict(op='restart'))
                plan.append(dict(op='sync'))
                k['daemon_latency'] = rng.choice([(0.01, 1.0), (0.0005, 6.0), (0.5, 9.0)])
            if rng.random() < 0.5:
                plan.append(dict(op='fork', depth=rng.choice([1, 2, 3, 4]), extra=1,
                                 ntx=ntx_list(rng, 4), remine=rng.choice([0.0, 0.5, 1.0]),
                                 seed=rng.getrandbits(32)))
                cont = rng.choice(['stay', 'stay', 'return', 'third'])
            else:
                plan.append(dict(op='admin_reorg', n=rng.choice([1, 2, 3])))
                cont = rng.choice(['stay', 'stay', 'third'])
            plan.append(dict(op='crash_when', cond='backupop', skip=rng.choice(range(0, 12)),
                             window=120.0, until_caught_up=False))
            plan.append(dict(op='crash_check', prop='C05', audit=False))
            if cont == 'return':
                plan.append(dict(op='return_to_old'))
            elif cont == 'third':
                plan.append(dict(op='fork', depth=rng.choice([1, 2]), extra=rng.choice([1, 2]),
                                 ntx=[2, 3], remine=0.5, seed=rng.getrandbits(32)))
            plan.append(dict(op='start'))
            plan.append(dict(op='sync'))
        if tier == 'thorough' and rng.random() < 0.5:
            first = next(i for i, o in enumerate(plan) if o['op'] == 'crash_when')
            nxt = next((i for i, o in enumerate(plan) if o['op'] == 'crash_when' and i > first), None)
            if nxt is not None:
                plan = plan[:nxt - 1]
            return dict(family='crashback', knobs=k, plan=plan, enumerate=True)
        return dict(family='crashback', knobs=k, plan=plan)


class UndoFamily(ReorgFamily):
    name = 'undo'
    driver = UndoDriver

    def gen(self, rng, tier, prop):
        k = swarm_knobs(rng)
        L = rng.choice([1, 2, 3, 5, 8, 1000])
        k['reorg_limit'] = L
        Le = min(L, 8)
        n0 = rng.choice([2 * (Le + 1) + 2, 2 * (Le + 1) + 6, 30])
        k['activation'] = rng.randint(1, n0)
        if k['chunk_size'] < 64:
            k['chunk_size'] = 64
        traj = rng.choice(['far_ahead', 'growing', 'caught'])
        first = n0 if traj == 'far_ahead' else max(2, n0 // 2) if traj == 'growing' else 2
        plan = [dict(op='mine', n=first, ntx=ntx_list(rng, first), seed=rng.getrandbits(32), keep=True),
                dict(op='start', keep=True),
                dict(op='poker', period=(0.05, 2.0), p_full=0.5)]
        left = n0 - first
        while left > 0:
            n = min(left, rng.randint(1, 4))
            left -= n
            if traj == 'caught':
                plan.append(dict(op='mine', n=n, ntx=ntx_list(rng, n), seed=rng.getrandbits(32)))
                if rng.random() < 0.7:
                    plan.append(dict(op='sync'))
            else:
                plan.append(dict(op='mine', n=n, ntx=ntx_list(rng, n), at=round(rng.uniform(0, 4), 3),
                                 seed=rng.getrandbits(32)))
            r = rng.random()
            if r < 0.15:
                plan.append(dict(op='stop'))
                plan.append(dict(op='open_check'))
            elif r < 0.3:
                plan.append(dict(op='crash_when', cond=rng.choice(['flushop', 'flushop', 'anyop']),
                                 skip=rng.randint(0, 40), window=8.0, until_caught_up=False))
                plan.append(dict(op='open_check'))
        plan.append(dict(op='sync', keep=True))
        plan.append(dict(op='undo_check'))
        if rng.random() < 0.5:
            # natural forks within the window right away (rows of every origin)
            plan.append(dict(op='fork', depth=rng.choice([1, Le]), extra=1, ntx=[2, 3], remine=0.5,
                             seed=rng.getrandbits(32)))
            plan.append(dict(op='sync'))
            plan.append(dict(op='undo_check'))
        if rng.random() < 0.5:
            # a reorganisation interrupted while blocks are being undone (stop or crash), then restart
            plan.append(dict(op='fork', depth=rng.choice([1, 2, Le]), extra=1, ntx=[2, 3], remine=0.5,
                             seed=rng.getrandbits(32)))
            if rng.random() < 0.5:
                plan.append(dict(op='crash_when', cond='backupop', skip=rng.randint(0, 2 * Le + 1),
                                 window=60.0, until_caught_up=False))
            else:
                plan.append(dict(op='sigterm_when', cond='backup', skip=rng.choice([0, 1, 3, 8]),
                                 window=60.0))
            plan.append(dict(op='open_check'))
            plan.append(dict(op='sync'))
            plan.append(dict(op='undo_check'))
        if rng.random() < 0.3:
            # a fork within the window whose abandoned blocks have to be downloaded again (a restart removed their
            # files) while the disk is full for a moment: one part of one downloaded block cannot be written, that
            # download is given up, the reorganisation stops half-way and has to be taken up again at the next poll
            plan.append(dict(op='restart'))
            plan.append(dict(op='sync'))
            plan.append(dict(op='fork', depth=rng.choice([1, 2, Le, Le]), extra=1, ntx=[2, 3], remine=0.5,
                             seed=rng.getrandbits(32)))
            plan.append(dict(op='ioerr_when', cond='blockfile', skip=rng.choice([0, 0, 1, 2, 3, 5]), window=90.0,
                             prop='C15'))
            plan.append(dict(op='sync'))
            plan.append(dict(op='undo_check'))
        if rng.random() < 0.4:
            # a fork within the window that is found while the server still holds blocks it has indexed but not
            # yet flushed (the daemon finds blocks and reorganises between two polls / mid-batch)
            for _ in range(rng.randint(1, 2)):
                n = rng.randint(1, 4)
                plan.append(dict(op='mine', n=n, ntx=ntx_list(rng, n), seed=rng.getrandbits(32),
                                 at=round(rng.uniform(0.0, 2.0), 3)))
                plan.append(dict(op='fork', depth=rng.choice([1, 1, min(Le, 2), min(Le, n + 1)]), extra=1, ntx=[2, 3],
                                 remine=0.5, at=round(rng.uniform(0.0, 7.0), 3), seed=rng.getrandbits(32)))
                plan.append(dict(op='wait', dt=round(rng.uniform(0.5, 8.0), 2)))
            plan.append(dict(op='sync'))
            plan.append(dict(op='undo_check'))
        plan.append(dict(op='snapshot', keep=True))
        for delta in rng.sample([-1, 0, 1], rng.randint(1, 3)):
            plan.append(dict(op='restore'))
            plan.append(dict(op='open_check'))
            plan.append(dict(op='sync'))
            plan.append(dict(op='undo_check'))
            plan.append(dict(op='fork_exact', delta=delta, seed=rng.getrandbits(32)))
        return dict(family='undo', knobs=k, plan=plan)


FAMILY = ReorgFamily()
UNDO = UndoFamily()
SHUTDOWN = ShutdownFamily()
CRASHFWD = CrashFwdFamily()
CRASHBACK = CrashBackFamily()
