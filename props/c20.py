from props.notif import FAMILY  # noqa: F401

CHECK = dict(
    property='C20', level='exploration',
    families=[('notif', 1.0), ('subs', 0.008)],     # a few full-server runs: the organic monitor
    budget=dict(quick=30, thorough=600), max_runs=dict(quick=2_000_000, thorough=50_000_000),
    rule=('start() runs in the session manager\'s own task with a slow initialising call while both reporters go on reporting; each evaluation = one simulated run of the real Notifications object driven by two concurrent '
          'reporter tasks (block processor, mempool tracker) on the virtual-time loop, their calls produced by '
          'a scheduler-driven random walk of a six-variable abstract model of the surrounding system (daemon '
          'height, processor height, flushed height, pending fork point, refresh in flight; intermediate '
          'unreported flushes, idle re-reports every poll, forks with falling heights, slow notify callbacks so '
          'that calls overlap); oracle RefNotifications: notify(h) only after a refresh at h and a block '
          'report/start at h; whenever both sources last reported the current height and no call is in '
          'progress, every script hash handed over since start is in some notification. The same oracle is fed '
          'with the organically recorded calls of every full-server run (C07 family; about 1 % of the runs), where '
          'in addition the height a refresh is reported with must be the daemon height at which its mempool '
          'listing was taken (runs in which the daemon height only ever rose). non-trivial = >= 2 '
          'notifications and >= 2 handed-over script hashes; distinct = distinct call sequence shape'),
    assumptions=['the abstract model of the surrounding system is read off the code (DESIGN.md 7/C20); the '
                 'organic monitor inside the full-server runs guards it'],
    components={'real': ['electrumx.server.controller.Notifications', 'asyncio tasks (virtual-time loop)'],
                'stub': ['block processor and mempool tracker (abstract reporter tasks)', 'sessions '
                         '(recording notify callback with scheduler-chosen latency)']},
    required_probes=['heights_fall', 'heights_repeat', 'refresh_at_unreported_height'],
)
