"""Family `peers` (C19): the real PeerManager inside the full server, with populations of model
remote servers on the simulated network discovered through the real paths (coin seed list, gossip,
server.add_peer announcements, admin add_peer), going good -> stale -> unreachable over simulated hours,
wall-clock steps, with and without the fake Tor proxy.  DESIGN.md 7/C19 and section 9."""
import ipaddress
import json
import random
import re

from props.common import swarm_knobs
from props.server import ClientDriver, SubsFamily
from props.hostile import features_corpus
import sim.world as worldmod

from electrumx.lib.peer import Peer
from electrumx.server import peers as peersmod

STALE_SECS = 3 * 3600

NONPUBLIC4 = [ipaddress.ip_network(n) for n in (
    '0.0.0.0/8', '10.0.0.0/8', '100.64.0.0/10', '127.0.0.0/8', '169.254.0.0/16', '172.16.0.0/12',
    '192.0.0.0/24', '192.0.2.0/24', '192.168.0.0/16', '198.18.0.0/15', '198.51.100.0/24', '203.0.113.0/24',
    '224.0.0.0/4', '240.0.0.0/4')]
NONPUBLIC6 = [ipaddress.ip_network(n) for n in (
    '::/128', '::1/128', '::ffff:0:0/96', '64:ff9b:1::/48', '100::/64', '2001::/23', '2001:db8::/32',
    'fc00::/7', 'fe80::/10', 'ff00::/8')]
LABEL = re.compile(r'^(?!-)[a-zA-Z0-9-]{1,63}(?<!-)$')


def ref_public(host):
    """RefPeers: syntactically valid non-localhost host name, or a globally routable address."""
    try:
        ip = ipaddress.ip_address(host)
    except ValueError:
        ip = None
    if ip is not None:
        nets = NONPUBLIC4 if ip.version == 4 else NONPUBLIC6
        return not any(ip in n for n in nets)
    if host == 'localhost' or not host or len(host) > 253:
        return False
    h = host[:-1] if host.endswith('.') else host
    return all(LABEL.match(x) for x in h.split('.'))


def bucket(ip_text):
    ip = ipaddress.ip_address(ip_text)
    if ip.version == 4:
        return str(ipaddress.ip_network(ip_text + '/16', strict=False))
    return str(ipaddress.ip_network(ip_text + '/56', strict=False))


class ModelPeer:
    """A scripted remote ElectrumX server."""

    def __init__(self, drv, idx, host, ip, kind, tcp_port=50001):
        self.drv, self.idx, self.host, self.ip, self.kind, self.tcp_port = drv, idx, host, ip, kind, tcp_port
        self.up = True
        self.verified = []          # wall-clock times of completed correct handshakes
        self.gossip = []            # model peers it tells about
        self.onion = host.endswith('.onion')

    def features(self):
        d = self.drv
        host = self.host if self.kind != 'not_listed' else 'other.' + self.host
        return {'hosts': {host: {'tcp_port': self.tcp_port}},
                'genesis_hash': d.genesis if self.kind != 'wrong_genesis' else '00' * 32,
                'protocol_min': '1.4', 'protocol_max': '1.4.2', 'server_version': 'ElectrumX 1.20.2',
                'hash_function': 'sha256', 'pruning': None}

    def real_name(self):
        return f'{self.host} v1.4.2 t{self.tcp_port}'

    # factory for SimNet.remote
    def accept(self, host, port, kw):
        if not self.up or self.kind == 'refuse':
            return ConnectionRefusedError(111, 'refused')
        if self.kind == 'hang':
            return 'hang'
        return PeerEndpoint(self)


class PeerEndpoint:
    def __init__(self, mp):
        self.mp = mp
        self.buf = b''
        self.seen = set()

    def on_connect(self, conn):
        self.conn = conn

    def on_close(self, conn):
        pass

    def on_data(self, conn, data):
        mp = self.mp
        d = mp.drv
        self.buf += data
        while b'\n' in self.buf:
            line, self.buf = self.buf.split(b'\n', 1)
            try:
                req = json.loads(line)
            except ValueError:
                continue
            if not isinstance(req, dict) or 'id' not in req:
                continue
            m = req.get('method')
            if mp.kind == 'garbage':
                conn.b_write(b'{"this is": not json\n')
                continue
            chain = d.w.daemon.chain()
            res = None
            if mp.kind in ('stall', 'stall_fork') and m == (VERIFY_METHODS[mp.idx % len(VERIFY_METHODS)]
                                                            if mp.kind == 'stall' else STALL_FORK_METHODS[mp.idx % 2]):
                # a server that accepts the connection and answers the other requests but never answers this one:
                # the request times out on the verifying side, the handshake never completes
                d.probe('c19.request_never_answered')
                continue
            if mp.kind in ('rpc_error', 'proto_error') and m == VERIFY_METHODS[mp.idx % len(VERIFY_METHODS)]:
                # a server that answers one request of the verification handshake with a JSON-RPC error, or with
                # a response that is no valid JSON-RPC: the handshake never completes
                if mp.kind == 'rpc_error':
                    out = {'jsonrpc': '2.0', 'id': req['id'], 'error': {'code': -32000 - mp.idx % 3,
                                                                       'message': 'daemon error'}}
                elif mp.idx % 2:
                    out = {'jsonrpc': '2.0', 'id': req['id']}
                else:
                    out = {'jsonrpc': '2.0', 'id': req['id'], 'result': 1, 'error': {'code': 1, 'message': 'x'}}
                conn.b_write(json.dumps(out).encode() + b'\n')
                continue
            if m == 'server.version':
                res = ['ElectrumX 1.20.2', '1.4.2'] if mp.kind != 'bad_version' else 'nope'
            elif m == 'blockchain.headers.subscribe':
                h = len(chain) - 1 + (100 if mp.kind == 'wrong_height' else 0)
                res = {'hex': chain[-1].header.hex(), 'height': h}
            elif m == 'blockchain.block.header':
                h = req['params'][0]
                hdr = chain[min(h, len(chain) - 1)].header
                res = (hdr if mp.kind not in ('wrong_header', 'slow_fork', 'stall_fork') else bytes(80)).hex()
            elif m == 'server.features':
                res = mp.features()
            elif m == 'server.peers.subscribe':
                res = [[g.ip or g.host, g.host, ['v1.4.2', f't{g.tcp_port}']] for g in mp.gossip]
            elif m == 'server.add_peer':
                res = True
            else:
                conn.b_write(json.dumps({'jsonrpc': '2.0', 'id': req['id'],
                                         'error': {'code': -32601, 'message': 'unknown'}}).encode() + b'\n')
                continue
            data = json.dumps({'jsonrpc': '2.0', 'id': req['id'], 'result': res}).encode() + b'\n'
            if mp.kind in ('slow', 'slow_fork'):
                # every reply takes 18-28 s (inside the 30 s a request may take): the exchange as a whole needs
                # one to one and a half minutes
                d.probe('c19.slow_reply')
                d.w.sim.at(18.0 + (mp.idx * 7) % 11, lambda m=m, data=data: self.answered(conn, m, data))
            else:
                self.answered(conn, m, data)

    def answered(self, conn, m, data):
        mp = self.mp
        if conn.b_closed:
            return
        self.seen.add(m)
        conn.b_write(data)
        if mp.kind in ('good', 'slow') and {'server.version', 'blockchain.headers.subscribe', 'blockchain.block.header',
                                            'server.features', 'server.peers.subscribe'} <= self.seen:
            mp.verified.append(mp.drv.w.sim.wall())
            self.seen = set()


STALL_FORK_METHODS = ['blockchain.block.header', 'blockchain.headers.subscribe']
VERIFY_METHODS = ['blockchain.headers.subscribe', 'server.features', 'server.peers.subscribe', 'server.version',
                  'blockchain.block.header']


class PeersDriver(ClientDriver):

    def setup(self):
        super().setup()
        self.genesis = worldmod.SimCoin.GENESIS_HASH
        self.models = []
        self.by_host = {}
        op = self.case['population']
        rng = random.Random(op['seed'])
        w = self.w
        pools = {
            'a': lambda i: f'23.45.{rng.randrange(256)}.{1 + i}',        # one /16 shared by many
            'b': lambda i: f'23.{46 + i % 40}.7.{1 + i}',                # spread
            # shared /56s, mostly different /64s inside them
            'v6': lambda i: f'2a01:4f8:{i % 3:x}:1{rng.randrange(4):x}{rng.choice([0, 0, 1, 2, 0x7f, 0xff]):02x}::{1 + i:x}',
            'priv': lambda i: rng.choice([f'10.1.2.{1 + i}', f'192.168.1.{1 + i}', f'172.16.5.{1 + i}']),
            'odd': lambda i: rng.choice([f'100.64.{i}.9', f'100.100.{i}.7', f'100.127.255.{1 + i}', '127.0.0.1', f'169.254.1.{1 + i}', '224.0.0.5',
                                         '0.0.0.0', f'198.51.100.{1 + i}', 'fe80::1', '::1', f'fc00::{1 + i:x}']),
        }
        kinds = ['good'] * 7 + ['wrong_genesis', 'wrong_height', 'wrong_header', 'not_listed', 'garbage',
                                'refuse', 'hang', 'bad_version', 'rpc_error', 'proto_error',
                                'stall', 'stall', 'stall_fork', 'slow', 'slow_fork']
        n = op['n']
        for i in range(n):
            pool = rng.choice(['a', 'a', 'a', 'b', 'b', 'v6', 'priv', 'odd'])
            ip = pools[pool](i)
            style = rng.random()
            if op.get('big') and i >= 3:
                # motif: many good clearnet servers crowded into two /16s plus many good onion servers
                if i % 4 == 0:
                    host, ip = f'peer{i}abcdefghijklmnop.onion', None
                else:
                    ip = f'23.{45 + i % 2}.{i}.{1 + i % 200}'
                    host = ip if i % 3 else f'p{i}.example{i % 3}.org'
                mp = ModelPeer(self, i, host, ip, 'good')
                self.models.append(mp)
                self.by_host[host] = mp
                self.register(mp)
                continue
            if op.get('v6crowd') and i < 5:
                # motif: several good servers in one IPv6 /56, each in a /64 of its own
                ip = f'2a01:4f8:7:55{i + 1:02x}::{1 + i:x}'
                host = ip if i % 2 == 0 else f'p{i}.example{i % 3}.org'
                mp = ModelPeer(self, i, host, ip, 'good')
                self.models.append(mp)
                self.by_host[host] = mp
                self.register(mp)
                continue
            if op.get('crowd') and i < 3:
                # motif: two good servers in one /16 and a good named server elsewhere (it moves in later)
                ip = pools['a'](i) if i < 2 else pools['b'](i)
                host = ip if i == 0 else f'p{i}.example{i % 3}.org'
                mp = ModelPeer(self, i, host, ip, 'good')
                self.models.append(mp)
                self.by_host[host] = mp
                self.register(mp)
                continue
            if rng.random() < op.get('p_onion', 0.15):
                host, ip = f'peer{i}abcdefghijklmnop.onion', None
            elif style < 0.45:
                host = ip                                   # IP literal
            elif style < 0.9:
                host = f'p{i}.example{i % 3}.org'
            else:
                host = rng.choice(['localhost', f'bad host{i}.org', f'-x{i}.org', f'p{i}..org', 'q' * 64 + f'{i}.org'])
            mp = ModelPeer(self, i, host, ip, rng.choice(kinds))
            self.models.append(mp)
            self.by_host[host] = mp
            self.register(mp)
        # the server's own reported identities answer like a good server (the server reaching itself from outside)
        self.own_models = []
        rep = (w.k.get('extra_env') or {}).get('REPORT_SERVICES') or ''
        for j, svc in enumerate([x for x in rep.split(',') if x]):
            host = svc.split('://')[1].rsplit(':', 1)[0]
            ip = None if host.endswith('.onion') else f'45.33.{32 + j}.156'
            mp = ModelPeer(self, 900 + j, host, ip, 'good')
            self.own_models.append(mp)
            self.by_own_host = getattr(self, 'by_own_host', {})
            self.by_own_host[host] = mp
            self.register(mp)
        for mp in self.models:
            mp.gossip = rng.sample(self.models, min(len(self.models), rng.randint(0, 5)))
        seeds = rng.sample(self.models, min(len(self.models), op.get('seeds', 3)))
        if op.get('crowd'):
            seeds = self.models[:3] + [m for m in seeds if m.idx >= 3]
        if op.get('v6crowd'):
            seeds = self.models[:5] + [m for m in seeds if m.idx >= 5]
        if op.get('big'):
            seeds = self.models[:12]
            for mp in self.models:
                mp.gossip = rng.sample(self.models, 8)
        worldmod.SimCoin.PEERS = [mp.real_name() for mp in seeds]

    def register(self, mp):
        net = self.w.net
        if mp.onion:
            net.remote[(mp.host, mp.tcp_port)] = mp.accept
        else:
            if mp.host != mp.ip:
                net.names[mp.host] = [mp.ip]
            net.remote[(mp.ip, mp.tcp_port)] = mp.accept

    def teardown(self):
        worldmod.SimCoin.PEERS = []
        super().teardown()
        self.res.nontrivial = bool(self.res.probes.get('c19.listed_peers'))

    # ---- events ----------------------------------------------------------------------------------------
    def op_peer_flip(self, op):
        def go():
            mp = self.models[op['i'] % len(self.models)]
            mp.up = not mp.up
            self.probe('c19.peer_down' if not mp.up else 'c19.peer_up')
        self._when(op, go)

    def op_peer_turn(self, op):
        """A server that was good forks off / breaks: from now on it fails re-verification."""
        def go():
            good = [m for m in self.models if m.kind == 'good']
            if not good:
                return
            mp = good[op['i'] % len(good)]
            mp.kind = op['kind']
            self.probe('c19.peer_turned_bad')
        self._when(op, go)

    def op_self_down(self, op):
        """The server can no longer be reached under its own reported identities."""
        def go():
            for mp in self.own_models:
                if op.get('how', 'down') == 'down':
                    mp.up = False
                else:
                    mp.kind = op['how']     # it answers, but wrongly: verification fails, it is marked bad and forgotten
            self.probe('c19.self_' + op.get('how', 'down'))
        self._when(op, go)

    def op_dns_move(self, op):
        """A host name starts resolving to another address (possibly into a crowded /16)."""
        def go():
            named = [m for m in self.models if m.ip and m.host != m.ip and not m.onion]
            if not named:
                return
            mp = self.models[op['idx']] if 'idx' in op else named[op['i'] % len(named)]
            net = self.w.net
            net.remote.pop((mp.ip, mp.tcp_port), None)
            rng = random.Random(op['i'] * 7 + 1)
            mp.ip = f'23.45.{rng.randrange(256)}.{200 + op["i"] % 50}'
            self.register(mp)
            self.probe('c19.dns_moved')
        self._when(op, go)

    def op_clock_jump(self, op):
        def go():
            self.w.sim.wall_offset += op['dt']
            self.probe('c19.clock_jump')
        self._when(op, go)

    def op_announce(self, op):
        """A model peer announces itself with server.add_peer from its own address."""
        def go():
            mp = self.models[op['i'] % len(self.models)]
            if mp.ip is None:
                return
            c = self.w.new_client(f'ann{mp.idx}', addr=(mp.ip, None))
            if not c.connect():
                return
            feats = mp.features()
            if op.get('hostile'):
                rng = random.Random(op['i'])
                raw = ('{"jsonrpc": "2.0", "id": 0, "method": "server.add_peer", "params": [%s]}'
                       % rng.choice(features_corpus(rng, self.genesis))).encode()
                c.send('server.add_peer', ['<hostile>'], raw=raw)
            else:
                c.send('server.add_peer', [feats])
            self.probe('c19.announcements')
            self.w.sim.at(30.0, c.disconnect)
        self._when(op, go)

    def op_admin_add_peer(self, op):
        def go():
            mp = self.models[op['i'] % len(self.models)]
            c = self.admin()
            if c is not None:
                c.send('add_peer', [mp.real_name()])
        self._when(op, go)

    def op_hours(self, op):
        """Let simulated hours pass, checking the advertised list at scheduler-chosen instants."""
        w = self.w
        end = w.sim.now + op['h'] * 3600.0
        while w.sim.now < end and w.server is not None:
            # gaps: mostly minutes to an hour, sometimes only seconds (two lists on either side of one state change)
            gap = w.sim.ch.delay(200.0, 3000.0) if not op.get('dense') or w.sim.ch.chance(0.5) else \
                w.sim.ch.delay(1.0, 280.0)
            if op.get('sparse'):
                gap = w.sim.ch.delay(3600.0, 30000.0)       # days pass: a list every few hours
            w.run(None, min(end - w.sim.now, gap))
            if w.server is None:
                break
            self.check_peers()

    # ---- oracle -------------------------------------------------------------------------------------------
    def check_peers(self):
        w = self.w
        srv = w.server
        if srv is None or srv.smgr is None:
            return
        pm = srv.smgr.peer_mgr
        for is_tor in (False, True):
            self.judge_list(pm, pm.on_peers_subscribe(is_tor), is_tor, w.sim.wall())
        # ... and what real client sessions are told (server.peers.subscribe): a clearnet client, and one
        # arriving through the Tor proxy when the server has detected one
        for kind in ('clear', 'tor'):
            proxy = pm.proxy_address()
            if kind == 'tor' and not proxy:
                continue
            c = self.list_clients.get(kind) if hasattr(self, 'list_clients') else None
            if c is None:
                if not hasattr(self, 'list_clients'):
                    self.list_clients = {}
                addr = (str(proxy.host), None) if kind == 'tor' else ('8.9.9.%d' % (7 + len(self.list_clients)), None)
                c = self.list_clients[kind] = w.new_client('lister-' + kind, addr=addr)
            if not self.ensure_connected(c):
                continue
            t_send = w.sim.wall()
            r = self.ask(c, 'server.peers.subscribe', [])
            if w.server is None or r is None or 'result' not in r:
                continue
            self.probe('c19.session_lists.' + kind)
            self.judge_list(pm, [tuple(x) for x in r['result']], kind == 'tor', t_send, via=kind + ' client session')

    def judge_list(self, pm, tuples, is_tor, now, via='PeerManager'):
        if True:
            myhosts = {str(p.host) for p in pm.myselves}
            self.probe('c19.list_calls')
            clear = {}
            onion = 0
            for ip_or_host, host, details in tuples:
                self.probe('c19.listed_peers')
                if host in myhosts:
                    me = [p for p in pm.myselves if str(p.host) == host][0]
                    if not (me.last_good > now - STALE_SECS):
                        self.violate('C19', 'self.stale', f'own identity {host} advertised but last verified '
                                     f'{now - me.last_good:.0f}s ago')
                    continue
                mp = self.by_host.get(host)
                if mp is None:
                    self.violate('C19', 'unknown_peer', f'advertised peer {host} was never part of the network')
                    continue
                if not ref_public(host):
                    self.violate('C19', 'not_public', f'advertised peer {host} ({ip_or_host}) is not publicly '
                                 'routable / not a valid public host name')
                if via == 'PeerManager':
                    # the server's own records at the instant of the call
                    for p in pm.peers:
                        if str(p.host) == host and p.bad:
                            self.violate('C19', 'marked_bad', f'advertised peer {host} is marked bad')
                if mp.kind not in ('good', 'slow') and not mp.verified:
                    self.violate('C19', 'unverifiable', f'advertised peer {host} is a {mp.kind} server: it can '
                                 'never have been verified')
                elif not any(now - STALE_SECS - 1.0 <= t for t in mp.verified):
                    last = max(mp.verified) if mp.verified else None
                    self.violate('C19', 'not_recent', f'advertised peer {host} was last verified '
                                 f'{(now - last) if last else None} s ago (> {STALE_SECS})')
                if host.endswith('.onion'):
                    onion += 1
                else:
                    ip = ip_or_host
                    try:
                        b = bucket(ip)
                    except ValueError:
                        b = 'name:' + ip
                    clear.setdefault(b, []).append(host)
            for b, hosts in clear.items():
                if len(hosts) > 2 and not b.startswith('name:'):
                    self.violate('C19', 'bucket', f'{len(hosts)} clearnet peers advertised from bucket {b}: '
                                 f'{hosts[:4]}')
            n_clear = sum(len(v) for v in clear.values())
            cap = 50 if is_tor else max(10, (len(tuples) - onion) // 4)
            if onion > cap:
                self.violate('C19', 'onion_cap', f'{onion} onion peers advertised to a {via} (cap {cap}, is_tor={is_tor})')
            if onion:
                self.probe('c19.onion_listed')
            if n_clear:
                self.probe('c19.clearnet_listed')

    def op_features_probe(self, op):
        """The announced-feature clause (a pure function, DESIGN.md section 9): by-product probe."""
        rng = random.Random(op['seed'])
        for txt in features_corpus(rng, self.genesis) * 3:
            try:
                feats = json.loads(txt)
            except ValueError:
                continue
            try:
                peers = Peer.peers_from_features(feats, 'src')
            except Exception as e:      # noqa: B902
                self.violate('C19', 'features.raised', f'peers_from_features({txt[:120]}) raised {e!r}')
                continue
            for p in peers:
                self.probe('c19.feature_peers')
                for name in ('tcp_port', 'ssl_port'):
                    try:
                        port = getattr(p, name)
                    except Exception as e:      # noqa: B902
                        self.violate('C19', 'features.port_raised', f'{name} of a peer from {txt[:120]} raised {e!r}')
                        continue
                    if port is not None and not (isinstance(port, int) and 0 < port < 65536):
                        self.violate('C19', 'features.port', f'{name}={port!r} from {txt[:120]}')
                try:
                    pub = p.is_public
                except Exception as e:      # noqa: B902
                    self.violate('C19', 'features.public_raised', f'is_public of host {p.host!r} raised {e!r}')
                    continue
                if pub and not ref_public(p.host):
                    self.violate('C19', 'features.public', f'host {p.host!r} treated as public')


class PeersFamily(SubsFamily):
    name = 'peers'
    driver = PeersDriver
    fam = 'peers'

    def execute(self, case, chooser, trace=False, logs=False):
        try:
            return super().execute(case, chooser, trace=trace, logs=logs)
        finally:
            worldmod.SimCoin.PEERS = []

    def gen(self, rng, tier, prop):
        k = swarm_knobs(rng, faults=False)
        k.update(stall_p=0.0, line_p=0.0, chunk_size=25_000_000, activation=5, preempt=False,
                 daemon_latency=(0.0, 0.001), peer_discovery='on', cache_mb=1200,
                 polling_delay=rng.choice([5, 120, 120]), refresh_secs=rng.choice([5.0, 120.0, 120.0]),
                 tor_proxy_port=rng.choice([None, 9050, 9050]),
                 extra_env=dict(PEER_ANNOUNCE='', REPORT_SERVICES=rng.choice(
                     ['', 'tcp://me.example9.org:50001', 'tcp://me.example9.org:50001,tcp://meabcdefghijklmnop.onion:50001'])))
        if not k['extra_env']['REPORT_SERVICES']:
            del k['extra_env']['REPORT_SERVICES']
        npeers = rng.choice([6, 10, 16, 24])
        big = rng.random() < 0.12
        if big:
            npeers = rng.choice([72, 90])
            k['tor_proxy_port'] = 9050
        plan = [dict(op='mine', n=6, ntx=[1, 2, 1, 0, 2, 1], seed=rng.getrandbits(32), keep=True),
                dict(op='start', keep=True), dict(op='settle', keep=True),
                dict(op='features_probe', seed=rng.getrandbits(32))]
        crowd = rng.random() < 0.4
        if crowd:
            plan.append(dict(op='hours', h=rng.choice([0.3, 1.0])))
            plan.append(dict(op='dns_move', idx=2, i=2))
            plan.append(dict(op='hours', h=3.5))
        for _ in range(rng.randint(2, 4)):
            for _ in range(rng.randint(0, 5)):
                at = round(rng.uniform(0, 5000), 1)
                r = rng.random()
                i = rng.randrange(npeers)
                if r < 0.3:
                    plan.append(dict(op='peer_flip', i=i, at=at))
                elif r < 0.36:
                    plan.append(dict(op='peer_turn', i=i, at=at, kind=rng.choice(
                        ['wrong_genesis', 'wrong_height', 'wrong_header', 'not_listed', 'rpc_error', 'garbage', 'stall',
                         'stall_fork', 'slow_fork'])))
                elif r < 0.5:
                    plan.append(dict(op='announce', i=i, at=at, hostile=rng.random() < 0.3))
                elif r < 0.65:
                    plan.append(dict(op='dns_move', i=i, at=at))
                elif r < 0.75:
                    plan.append(dict(op='admin_add_peer', i=i, at=at))
                elif r < 0.85:
                    plan.append(dict(op='clock_jump', dt=rng.choice([-7200.0, -600.0, 900.0, 3 * 3600.0 + 5, 86400.0]),
                                     at=at))
                else:
                    plan.append(dict(op='mine', n=1, ntx=[1], at=at, seed=rng.getrandbits(32)))
            plan.append(dict(op='hours', h=rng.choice([0.5, 1.5, 2.0, 3.5]), dense=rng.random() < 0.5))
        if k['extra_env'].get('REPORT_SERVICES') and rng.random() < 0.35:
            # motif: the server's own identities stop being reachable, or start failing verification (marked bad and
            # forgotten at once), and half a day passes
            plan.append(dict(op='self_down', at=round(rng.uniform(0, 3000), 1),
                             how=rng.choice(['down', 'wrong_height', 'wrong_genesis', 'not_listed', 'rpc_error'])))
            plan.append(dict(op='hours', h=rng.choice([5.0, 8.0, 12.0])))
        return dict(family='peers', knobs=k, plan=plan,
                    population=dict(n=npeers, crowd=crowd, big=big, v6crowd=(not crowd and not big and rng.random() < 0.25),
                                    seed=rng.getrandbits(32), seeds=rng.randint(1, 4),
                                    p_onion=rng.choice([0.0, 0.15, 0.5])))


FAMILY = PeersFamily()
