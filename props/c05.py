from props.reorg import CRASHBACK as FAMILY  # noqa: F401

CHECK = dict(
    property='C05', level='fault_enumeration',
    families=[('crashback', 1.0)],
    budget=dict(quick=50, thorough=900), max_runs=dict(quick=200_000, thorough=5_000_000),
    rule=('each evaluation = one simulated run: caught-up server, then a natural fork (depth 1-4) or a forced '
          'reorg, with the process killed at the (skip+1)-th durable operation inside flush_backup (history '
          'rollback commit, UTXO rollback commit) of any block being undone; continuation: the daemon stays '
          'on the new branch / has returned to the old branch (or never left it: forced reorg) / moved to a '
          'third branch; restart, bounded catch-up, then every observable is compared with '
          'RefIndex(daemon chain); thorough tier: half of the evaluations enumerate every position of one '
          'generated reorg in turn. non-trivial = a crash fired inside a backup and the final audit '
          'completed'),
    assumptions=['a simulated plyvel module (under the real LevelDB class of electrumx.server.storage) and SimFS stand in for the LevelDB engine and the file system (batches atomic, completed '
                 'operations durable: process death, not power loss)',
                 'the model bitcoind serves only valid chains; fork depth within the property\'s '
                 'quantifier (reorg limit counted from the highest height the daemon reported; chain '
                 'at least twice as high as the fork is deep)'],
    required_probes=['crash.fired', 'backup_blocks', 'daemon.returned_to_old_branch', 'hazard.crash_between_history_and_utxo_rollback'],
)
