"""Family `notif` (C20): the real Notifications object driven by two abstract reporter tasks (block
processor and mempool tracker) under the scheduler, with the calls produced by a random walk of a
six-variable abstract model of the surrounding system; plus the RefNotifications oracle that the
full-server families also feed with the organically recorded calls.  DESIGN.md 7/C20."""
import asyncio
import types

from props.common import Family
from sim.kernel import Sim, SimLoop, HarnessError
from sim.plan import Result, Violation

from electrumx.server.controller import Notifications


class NotifOracle:
    """RefNotifications: notify(h) only after a refresh at h and a block report (or start) at h;
    nothing handed over after start is ever dropped."""

    def __init__(self):
        self.started = False
        self.block_heights = set()      # heights reported by on_block (or start)
        self.mp_heights = set()
        self.handed = set()             # every hashX handed over after start
        self.handed_src = {}
        self.notified = set()
        self.last_block = None
        self.last_mp = None
        self.calls = []
        self.errors = []
        self.start_notify = None
        self.last_kind = None
        self.block_pending = False      # a non-empty block report not yet followed by a refresh at its height

    def event(self, kind, height, touched):
        self.calls.append((kind, height, sorted(touched)))
        if kind in ('block', 'mempool', 'start'):
            self.last_kind = kind
        if kind == 'start':
            self.started = True
            self.start_notify = height
            self.block_heights.add(height)
            self.last_block = height
        elif kind == 'block':
            self.block_heights.add(height)
            self.last_block = height
            if touched:
                self.block_pending = True
            if self.started:
                self._hand(touched, ('block', height))
        elif kind == 'mempool':
            self.mp_heights.add(height)
            self.last_mp = height
            if height == self.last_block:
                self.block_pending = False
            if self.started:
                self._hand(touched, ('mempool', height))
        elif kind == 'notify':
            if not self.started:
                return
            if self.start_notify == height:
                self.start_notify = None        # the initialising call made by start() itself
                return
            if height not in self.mp_heights:
                self.errors.append(('agreed_height', f'notify({height}) without a mempool refresh '
                                    f'at {height} (refreshes at {sorted(self.mp_heights)[-4:]})'))
            if height not in self.block_heights:
                self.errors.append(('agreed_height', f'notify({height}) without a block report or '
                                    f'start at {height} (reports at {sorted(self.block_heights)[-4:]})'))
            self.notified |= set(touched)

    def _hand(self, touched, src):
        for x in touched:
            self.handed.add(x)
            self.handed_src.setdefault(x, src)

    def missing(self):
        """Handed over but in no notification (meaningful when both sources last reported the
        same, current height and no call is in progress)."""
        return sorted(self.handed - self.notified, key=repr)

    def agreed(self):
        """Both sources have reported the same height, the refresh last.  A block report that
        arrives after the refresh of its height is, by design, delivered together with the next
        refresh at that height (at most one refresh period later): deferred, not dropped, so the
        oracle waits for that refresh instead of flagging the deferral."""
        return (self.started and self.last_block is not None and self.last_block == self.last_mp
                and self.last_kind == 'mempool')


class NotifFamily(Family):
    name = 'notif'

    def gen(self, rng, tier, prop):
        return dict(plan=[dict(op='walk', steps=rng.choice([6, 10, 16, 30]),
                               slow_notify=rng.choice([0.0, 0.0, 0.5, 5.0]),
                               p_fork=rng.choice([0.0, 0.1, 0.3]),
                               p_midflush=rng.choice([0.0, 0.3, 0.7]),
                               h0=rng.choice([0, 5, 30]),
                               # start() is called by the session manager's own task: both reporters go on
                               # reporting while its initialising notification is still in flight
                               start_task=rng.random() < 0.7,
                               slow_start=rng.choice([0.0, 1.0, 8.0, 20.0]))])

    def execute(self, case, chooser, trace=False, logs=False):
        op = case['plan'][0]
        res = Result()
        sim = Sim(chooser, preempt=False, trace=trace)
        loop = SimLoop(sim)
        asyncio.set_event_loop(loop)
        ch = sim.ch
        n = Notifications()
        oracle = NotifOracle()
        m = types.SimpleNamespace(D=op['h0'], B=op['h0'], F=op['h0'], R=None, P=None, M=None,
                                  touched=set(), advanced=False, busy=0, nid=0, started=False,
                                  steps=0, stop=False, start_done=False)
        viol = []

        def fresh(k):
            out = set()
            for _ in range(k):
                m.nid += 1
                out.add(m.nid)
            return out

        async def notify(h, touched):
            oracle.event('notify', h, touched)
            sim.log('notify', h, sorted(touched))
            if op.get('slow_start') and not m.start_done:
                # the initialising call made by start(): the session manager reads the tip header from disk
                m.start_done = True
                await asyncio.sleep(ch.delay(0.0, op['slow_start']))
            elif op['slow_notify']:
                await asyncio.sleep(ch.delay(0.0, op['slow_notify']))

        def check_quiet():
            # both sources last reported the current height, nothing in progress
            if m.busy == 0 and oracle.agreed() and oracle.last_block == m.B == m.D and m.P is None:
                miss = oracle.missing()
                if miss:
                    x = miss[0]
                    viol.append(('dropped', f'hashX {x} handed over by {oracle.handed_src[x]} is in no '
                                 f'notification although both sources have reported height '
                                 f'{oracle.last_block}; calls: {oracle.calls[-12:]}'))

        async def call(coro):
            m.busy += 1
            try:
                await coro
            finally:
                m.busy -= 1
            check_quiet()

        async def bp_task():
            while not m.stop:
                acts = []
                if m.P is not None:
                    acts.append('reorg')
                elif m.B < m.D:
                    acts.append('advance')
                else:
                    acts.append('caught_up')
                a = acts[ch.choose(len(acts))]
                if a == 'advance':
                    m.B += 1
                    m.touched |= fresh(ch.choose(3))
                    if ch.chance(op['p_midflush']):
                        # cache-pressure flush inside the same locked section: not reported
                        m.F = m.B
                elif a == 'reorg':
                    m.F = m.B
                    while m.B > m.P:
                        m.B -= 1
                        m.F = m.B
                        m.touched |= fresh(ch.choose(2))
                        await asyncio.sleep(ch.delay(0.001, 0.2))
                    m.P = None
                else:
                    m.F = m.B
                    m.advanced = False
                    t, m.touched = m.touched, set()
                    oracle.event('block', m.B, t)
                    sim.log('on_block', m.B, sorted(t))
                    await call(n.on_block(t, m.B))
                    m.R = m.B
                    # idle poll
                    await asyncio.sleep(ch.delay(0.001, 5.0))
                    continue
                await asyncio.sleep(ch.delay(0.001, 0.5))

        async def mp_task():
            while not m.stop:
                if m.M is None:
                    if m.D == m.F:
                        m.M = m.D
                    await asyncio.sleep(ch.delay(0.001, 1.0))
                else:
                    s = fresh(ch.choose(3)) if m.started else set()
                    h, m.M = m.M, None
                    oracle.event('mempool', h, s)
                    sim.log('on_mempool', h, sorted(s))
                    await call(n.on_mempool(s, h))
                    if not m.started:
                        # the session manager starts notifications after the first refresh
                        m.started = True
                        oracle.event('start', m.F, set())
                        if op.get('start_task'):
                            start_tasks.append(loop.create_task(call(n.start(m.F, notify))))
                        else:
                            await call(n.start(m.F, notify))
                    await asyncio.sleep(ch.delay(0.001, 5.0))

        async def daemon_task():
            for _ in range(op['steps']):
                await asyncio.sleep(ch.delay(0.001, 6.0))
                if m.P is None and m.started and ch.chance(op['p_fork']) and min(m.B, m.D) >= 2:
                    d = 1 + ch.choose(2)
                    kind = ch.choose(4)
                    if kind == 0:
                        # forced `reorg d` by the admin: blocks undone, the daemon unchanged
                        m.P = max(0, m.B - d)
                    elif kind == 1:
                        # the daemon moves to a shorter branch (invalidateblock) and the admin forces a
                        # reorg: the processor ends below the height it last reported
                        m.P = max(0, min(m.B, m.D) - d)
                        m.D = max(m.P, m.D - ch.choose(2) - 1)
                    else:
                        m.P = max(0, min(m.B, m.D) - d)
                        m.D = m.D + ch.choose(2) + (1 if m.D <= m.B else 0)
                else:
                    m.D += 1 + ch.choose(2)
            # settle: freeze the daemon, let both sources report at the final height
            await asyncio.sleep(60.0)
            m.stop = True

        start_tasks = []

        async def main():
            tasks = [loop.create_task(bp_task()), loop.create_task(mp_task()),
                     loop.create_task(daemon_task())]
            await tasks[2]
            for t in tasks[:2] + start_tasks:
                t.cancel()
            await asyncio.gather(*tasks[:2], *start_tasks, return_exceptions=True)

        try:
            loop.run_until_complete(main())
        except HarnessError as e:
            res.harness_error = repr(e)
        finally:
            asyncio.set_event_loop(None)
            loop.close()
        check_quiet()
        for clause, msg in oracle.errors[:2]:
            res.violations.append(Violation('C20', clause, msg))
        for clause, msg in viol[:1]:
            res.violations.append(Violation('C20', clause, msg))
        kinds = [c[0] for c in oracle.calls]
        res.probes['calls'] = len(kinds)
        res.probes['notifies'] = kinds.count('notify')
        heights_b = [c[1] for c in oracle.calls if c[0] == 'block']
        if any(b < a for a, b in zip(heights_b, heights_b[1:])):
            res.probes['heights_fall'] += 1
        if any(a == b for a, b in zip(heights_b, heights_b[1:])):
            res.probes['heights_repeat'] += 1
        if set(oracle.mp_heights) - set(oracle.block_heights):
            res.probes['refresh_at_unreported_height'] += 1
        res.nontrivial = kinds.count('notify') >= 2 and len(oracle.handed) >= 2
        res.isig = hash(tuple((c[0], c[1], len(c[2])) for c in oracle.calls))
        res.digest = sim.digest()
        res.choices = sim.ch.rec
        res.vt = sim.now
        res.stats['steps'] = sim.steps
        res.trace = sim.trace
        return res

    def describe(self, case):
        return case['plan'][0]


FAMILY = NotifFamily()
