from props.merkle import FAMILY, branch_length_probe  # noqa: F401

CHECK = dict(
    property='C12', level='exploration',
    families=[('merkle', 1.0)],
    extras=[branch_length_probe],
    budget=dict(quick=25, thorough=600), max_runs=dict(quick=2_000_000, thorough=50_000_000),
    rule=('each evaluation = one seeded history of initialise / branch_and_root (extension) / truncate '
          '(optionally followed by replacing the truncated tail, as a reorganisation does) issued sequentially - '
          'or, in 40 % of the runs, with bursts of extension requests in flight while the truncate (and the '
          'replacement of the tail) happens, each in-flight answer being allowed to match any version of the list '
          'that existed during the request or to be refused - against the real MerkleCache over a list of 1..600 leaves whose asynchronous source is served with '
          'simulated latency; after every operation, and for a final sweep of (length, index) pairs (all pairs '
          'for small lists; in ascending, shuffled or full-length-first order), the answer must equal the from-scratch Merkle.branch_and_root, which is itself '
          'compared with an independent definition (root, fold-back, branch length, TSC "*" marking). Plus a '
          'declared non-simulation probe: branch_length on all 187 power-of-two boundary values up to 2**62. '
          'non-trivial = >= 3 cache queries checked; distinct = distinct (size, operation kinds, seed class)'),
    assumptions=['the stateless clauses (fold-back, root, branch length, TSC marking) are pure functions: '
                 'covered as the oracle\'s by-product and by the declared probe, not by simulation '
                 '(DESIGN.md section 9)', 'the system-level use of the cache (header proofs during reorganisations) belongs to C11'],
    components={'real': ['electrumx.lib.merkle.Merkle', 'electrumx.lib.merkle.MerkleCache', 'asyncio'],
                'stub': ['hash source (list with simulated latency)']},
)
