"""Family `daemonfaults` (C18): the real electrumx Daemon class against 1-3 distinguishable model
bitcoinds behind the fake HTTP layer, every attempt failing according to a fault sequence over the
alphabet {timeout, disconnect, reset, connerr, clienterr, http500, warmup, midbody}, followed by
availability.  Random sequences in the seeded search plus exhaustive enumeration of all sequences up
to a bound (fault_enumeration).  DESIGN.md 7/C18."""
import asyncio
import concurrent.futures as cf
import itertools
import multiprocessing
import random
import types

from props.common import Family
from props.blockstream import Env
from sim.kernel import Chooser, SimLoop, HarnessError
from sim.plan import Result, Violation
from sim.chaingen import BlockTree, ChainGen, hex_hash
from sim.daemon import SimDaemon, DaemonNet, FaultPlan, FAULTS

import electrumx.server.daemon as dmod
from electrumx.server.daemon import Daemon, DaemonError
from electrumx.lib.coins import BitcoinSVRegtest

CALLS = ('height', 'block_hex_hashes', 'getrawtransactions', 'getrawtransactions_strict',
         'mempool_hashes', 'getrawtransaction', 'broadcast', 'get_block', 'hashes_error',
         'getrawtransaction_error')

_WORLD = {}


def models():
    """Three model daemons, distinguishable by height and mempool content, on one block tree: they
    share the first blocks (so that arguments are valid whichever daemon ends up serving) and the
    common mempool transactions; each has its own extra blocks and one extra mempool tx."""
    if 'daemons' not in _WORLD:
        rng = random.Random(1000)
        tree = BlockTree(5)
        gen = ChainGen(tree, dict(p_collide=0.0))
        b = None
        for _ in range(8):
            b = gen.make_block(b, rng, rng.randint(2, 4))
        base = SimDaemon(tree)
        base.set_tip(b)
        common = []
        for _ in range(4):
            avail = {k: v for k, v in base.mempool_avail().items() if v[2] >= 0}
            t = gen.make_tx(rng, dict(avail), n_in=1)
            base.add_mempool_tx(t)
            common.append(t)
        ds = []
        for i, extra in enumerate((6, 0, 3)):      # heights fall and rise along the fail-over order
            tip = b
            for _ in range(extra):
                tip = gen.make_block(tip, rng, 0)       # coinbase-only blocks: nothing common is spent
            d = SimDaemon(tree)
            d.set_tip(tip)
            for t in common[:3]:
                assert d.add_mempool_tx(t)
            d.spare = common[3]
            avail = {k: v for k, v in d.mempool_avail().items() if v[2] >= 0 and k[0] == tip.txs[0].hash} \
                if extra else None
            if avail:
                d.add_mempool_tx(gen.make_tx(rng, dict(avail), n_in=1))
            ds.append(d)
        _WORLD['daemons'] = ds
    return _WORLD['daemons']


def expected(d, call):
    """What daemon model `d` genuinely answers to `call` (value or ('error',))."""
    chain = d.chain()
    mp = list(d.mempool)
    if call == 'height':
        return d.height
    if call == 'block_hex_hashes':
        return [b.hex for b in chain[2:6]]
    if call in ('getrawtransactions', 'getrawtransactions_strict'):
        ids = [mp[0], bytes(32), mp[1]] if call == 'getrawtransactions' else [mp[0], mp[1]]
        return [d.mempool[i].raw if i in d.mempool else None for i in ids]
    if call == 'mempool_hashes':
        return [hex_hash(h) for h in mp]
    if call == 'getrawtransaction':
        return d.mempool[mp[0]].raw.hex()
    if call == 'get_block':
        return chain[3].raw
    return ('error',)


async def do_call(daemon, d0, call, fs):
    """Issue `call` on the real Daemon; arguments are taken from model d0 (all models share the
    shapes, not the contents, so per-daemon answers differ)."""
    if call == 'height':
        return await daemon.height()
    if call == 'block_hex_hashes':
        return await daemon.block_hex_hashes(2, 4)
    if call == 'hashes_error':
        return await daemon.block_hex_hashes(2, 500)
    if call == 'mempool_hashes':
        return await daemon.mempool_hashes()
    if call == 'get_block':
        # the block is named by hash: ask the daemon that will serve for ITS block at height 3
        raise HarnessError('get_block is issued through do_get_block')
    raise HarnessError(call)


class DaemonFaultFamily(Family):
    name = 'daemonfaults'

    def gen(self, rng, tier, prop):
        nf = rng.choice([0, 1, 1, 2, 3, 4, 5, 6, 8, 11])
        op = dict(op='call', call=rng.choice(CALLS), urls=rng.choice([1, 1, 2, 3]),
                  faults=[rng.choice(FAULTS) for _ in range(nf)],
                  init=rng.choice([0.25, 0.25, 0.1, 1.0, 4.0]), max=rng.choice([4.0, 4.0, 1.0]),
                  concurrent=rng.random() < 0.25, seed=rng.getrandbits(32))
        if op['urls'] > 1 and not op['concurrent'] and rng.random() < 0.4:
            idx = list(range(op['urls']))
            rng.shuffle(idx)
            op['reconf'] = idx[:rng.randint(1, len(idx))]
        return dict(plan=[op])

    # one Daemon run: returns dict(result|exc, sleeps, urls_used, requests, failovers, file)
    def one_run(self, op, nurls, chooser, trace=False):
        env = Env(chooser)
        sim = env.sim
        loop = SimLoop(sim)
        sim.preempt = False
        asyncio.set_event_loop(loop)
        ds = models()[:nurls]
        urls = [f'http://u:p@d{i + 1}:8332/' for i in range(nurls)]
        faults = FaultPlan(sim, script=[None] + [f for f in op['faults']])     # the leading height() is not faulted
        net = DaemonNet(sim, dict(zip(urls, ds)), faults, latency=(0.0005, 0.05))
        url_log = []
        orig_daemon_for = net.daemon_for

        def daemon_for(url):
            base, d = orig_daemon_for(url)
            url_log.append(urls.index(base))
            return base, d
        net.daemon_for = daemon_for
        sleeps = []

        async def sleep(t, *a):
            sleeps.append(t)
            return await asyncio.sleep(t, *a)
        class _AsyncioShim(types.SimpleNamespace):
            def __getattr__(self, name):        # everything but sleep is the real module's
                return getattr(asyncio, name)
        ns = _AsyncioShim(sleep=sleep)
        ns.Semaphore, ns.TimeoutError = asyncio.Semaphore, asyncio.TimeoutError
        old_async, old_aio = dmod.asyncio, dmod.aiohttp
        dmod.asyncio = ns
        dmod.aiohttp = net.shim()
        init, mx = op['init'], max(op['max'], op['init'])
        out = dict(sleeps=sleeps, url_log=url_log)
        call = op['call']

        async def issue(daemon, which):
            d0 = ds[0]
            mp = list(d0.mempool)
            if which == 'get_block':
                served_by = ds[daemon.url_index]     # named by hash: ask for the current daemon's block
                blk = served_by.chain()[3]
                size = await daemon.get_block(blk.hex, 'meta/blocks/x')
                data = bytes(env.fs.files['/db/meta/blocks/x'])
                return ('block', size, data, blk.raw)
            if which in ('getrawtransactions', 'getrawtransactions_strict'):
                # tx ids differ per model: use positional ids of the model that will answer
                cur = ds[daemon.url_index]
                m = list(cur.mempool)
                ids = [m[0], bytes(32), m[1]] if which == 'getrawtransactions' else [m[0], m[1]]
                r = await daemon.getrawtransactions([hex_hash(i) for i in ids],
                                                    replace_errs=(which == 'getrawtransactions'))
                return ('rawtxs', [hex_hash(i) for i in ids], r)
            if which == 'getrawtransaction':
                cur = ds[daemon.url_index]
                txid = list(cur.mempool)[0]
                return ('rawtx', txid, await daemon.getrawtransaction(hex_hash(txid)))
            if which == 'getrawtransaction_error':
                return await daemon.getrawtransaction('ab' * 32)
            if which == 'broadcast':
                cur = ds[daemon.url_index]
                return ('broadcast', await daemon.broadcast_transaction(cur.spare.raw.hex()))
            return await do_call(daemon, d0, which, env.fs)

        async def main():
            async with Daemon(BitcoinSVRegtest, ','.join(u[7:-1] for u in urls),
                              init_retry=init, max_retry=mx) as daemon:
                out['daemon'] = daemon
                out['height_before'] = (await daemon.height(), ds[daemon.url_index].height)
                if op.get('concurrent'):
                    others = ['height', 'mempool_hashes']
                    rs = await asyncio.gather(issue(daemon, call), *[issue(daemon, o) for o in others],
                                              return_exceptions=True)
                    out['others'] = list(zip(others, rs[1:]))
                    r = rs[0]
                    if isinstance(r, BaseException):
                        raise r
                    return r
                r = await issue(daemon, call)
                # afterwards the daemon's height as seen through this Daemon object must be the genuine one
                # of whichever daemon serves now (it may be lower than one seen before a fail-over)
                h1 = await daemon.height()
                out['height_after'] = (h1, daemon.cached_height(), ds[daemon.url_index].height)
                if op.get('reconf'):
                    # the operator reconfigures the URLs (LocalRPC daemon_url -> Daemon.set_url) after whatever
                    # fail-overs the call went through: "set the URLs to the given list, and switch to the first"
                    daemon.set_url(','.join(urls[i][7:-1] for i in op['reconf']))
                    n0 = len(url_log)
                    left = len(faults.script)
                    try:
                        h2 = await daemon.height()
                        out['reconf'] = ('ok', h2, list(url_log[n0:]), left)
                    except HarnessError:
                        raise
                    except BaseException as e:      # noqa: B902
                        out['reconf'] = ('exc', repr(e), list(url_log[n0:]), left)
                return r

        saved = [dict(d.mempool) for d in ds]
        try:
            out['result'] = loop.run_until_complete(asyncio.wait_for(main(), 100000.0))
        except HarnessError:
            raise
        except BaseException as e:      # noqa: B902
            out['exc'] = e
        finally:
            for d, m in zip(ds, saved):
                d.mempool = m
            dmod.asyncio, dmod.aiohttp = old_async, old_aio
            asyncio.set_event_loop(None)
            loop.close()
        out.update(requests=net.requests, inflight=net.inflight, fired=list(faults.fired),
                   left=len(faults.script), vt=sim.now, sim=sim, served=list(net.served))
        return out

    def execute(self, case, chooser, trace=False, logs=False):
        op = case['plan'][0]
        res = Result()
        viol = []
        chooser = chooser or Chooser(0)
        nurls = op['urls']
        call = op['call']
        ds = models()
        run = self.one_run(op, nurls, chooser, trace)
        init, mx = op['init'], max(op['max'], op['init'])
        nfaults = len(run['fired'])

        def v(clause, msg):
            viol.append((clause, f'{call} urls={nurls} faults={op["faults"]} init={init} max={mx}: {msg}'))

        genuine_error = call in ('hashes_error', 'getrawtransaction_error', 'getrawtransactions_strict') \
            and call != 'getrawtransactions_strict'
        if 'exc' in run:
            e = run['exc']
            if isinstance(e, DaemonError) and genuine_error:
                pass
            elif isinstance(e, asyncio.TimeoutError):
                v('liveness', f'call did not return within the bounded window after the last fault '
                  f'({run["left"]} faults unconsumed)')
            else:
                v('raised', f'{e!r}')
        else:
            r = run['result']
            if genuine_error:
                v('error_swallowed', f'a genuine RPC error was not raised; returned {str(r)[:80]}')
            elif not op.get('concurrent') or True:
                served = [s for s in run['served']]
                if run.get('reconf') and run['reconf'][0] == 'ok':
                    served = served[:-1]        # the request made after the reconfiguration
                last_base = served[-1][0] if served else None
                src = ds[[f'http://u:p@d{i + 1}:8332/' for i in range(nurls)].index(last_base)] \
                    if last_base and not op.get('concurrent') else None
                cands = [src] if src is not None else ds[:nurls]
                ok = False
                for d in cands:
                    if isinstance(r, tuple) and r[0] == 'block':
                        _k, size, data, raw = r
                        ok = ok or (data == raw and size == len(raw))
                    elif isinstance(r, tuple) and r[0] == 'rawtxs':
                        _k, ids, got = r
                        exp = [d.mempool[bytes.fromhex(i)[::-1]].raw if bytes.fromhex(i)[::-1] in d.mempool
                               else None for i in ids]
                        ok = ok or got == exp
                    elif isinstance(r, tuple) and r[0] == 'rawtx':
                        ok = ok or (r[1] in d.mempool and r[2] == d.mempool[r[1]].raw.hex())
                    elif isinstance(r, tuple) and r[0] == 'broadcast':
                        ok = ok or r[1] == hex_hash(d.spare.hash)
                    else:
                        ok = ok or r == expected(d, call)
                if not ok:
                    v('wrong_answer', f'returned {str(r)[:120]} which is not the genuine, complete, aligned '
                      f'answer of the daemon that served the successful attempt')
        hb = run.get('height_before')
        if hb is not None and hb[0] != hb[1]:
            v('wrong_answer', f'leading height() returned {hb[0]}, daemon is at {hb[1]}')
        ha = run.get('height_after')
        if ha is not None and not (ha[0] == ha[1] == ha[2]):
            v('stale_height', f'height() after the call returned {ha[0]} (cached {ha[1]}) but the daemon now in use '
              f'is at {ha[2]}')
        # attempts: one per fault plus the successful / genuinely failing one
        if not op.get('concurrent') and 'exc' not in run or (genuine_error and not op.get('concurrent')):
            if run['requests'] != nfaults + 2 + (1 if 'height_after' in run else 0) + (1 if 'reconf' in run else 0):
                v('attempts', f'{run["requests"]} HTTP requests for {nfaults} faults')
        if run['inflight'] != 0:
            v('inflight', f'{run["inflight"]} request(s) still in flight after the call returned')
        # round-robin URL changes
        log = run['url_log']
        rc = run.get('reconf')
        if rc is not None:
            log = log[:len(log) - len(rc[2])]
            if rc[3] == 0:      # no scripted fault left: the one request after the reconfiguration must simply work
                want = op['reconf'][0]
                if rc[0] != 'ok':
                    v('reconfigure', f'after fail-overs, set_url({op["reconf"]}) and height() raised {rc[1]}')
                elif rc[2][:1] != [want] or rc[1] != ds[want].height:
                    v('reconfigure', f'after set_url({op["reconf"]}) the next request went to URL {rc[2]} and '
                      f'returned {rc[1]}; the first URL of the new list is #{want} at height {ds[want].height}')
        for a, b in zip(log, log[1:]):
            if a != b and b != (a + 1) % nurls and not op.get('concurrent'):
                v('failover.order', f'URL index went {a} -> {b}')
        # sleeps within bounds
        for s in run['sleeps']:
            if not (s == 0 or init - 1e-9 <= s <= mx + 1e-9):
                v('backoff.bounds', f'sleep {s} outside [{init}, {mx}]')
        # law-agnostic fail-over timing via the single-URL differential
        if nurls > 1 and not op.get('concurrent') and nfaults:
            single = self.one_run(dict(op, reconf=None), 1, Chooser(0, replay=list(chooser.rec)), trace)
            sa = single['sleeps']
            exp_sleeps, exp_fail = [], []
            k = 0
            for _ in range(nfaults):
                if k < len(sa) and sa[k] == mx and all(x != mx for x in sa[:k]):
                    exp_sleeps.append(0)
                    exp_fail.append(True)
                    k = 0
                else:
                    exp_sleeps.append(sa[k] if k < len(sa) else None)
                    exp_fail.append(False)
                    k += 1
            alog = log[1:]                 # without the leading height() request
            got_fail = [a != b for a, b in zip(alog, alog[1:])][:nfaults]
            if len(sa) >= nfaults and (got_fail != exp_fail[:len(got_fail)] or
                                       run['sleeps'][:nfaults] != exp_sleeps):
                v('failover.timing', f'fail-overs {got_fail} sleeps {run["sleeps"]} but the single-URL run '
                  f'of the same Daemon shows back-off {sa}: fail-over must happen exactly at the error '
                  f'whose back-off first reaches max_retry ({exp_fail}, {exp_sleeps})')
            res.probes['failover.differential'] += 1
            if any(exp_fail):
                res.probes['failover.expected'] += 1
        for c, msg in viol[:2]:
            res.violations.append(Violation('C18', c, msg))
        sim = run['sim']
        for f in run['fired']:
            res.stats['dfault.' + f] += 1
        res.probes['calls'] = 1
        res.nontrivial = nfaults >= 1
        res.isig = hash((call, nurls, tuple(op['faults']), init, mx, bool(op.get('concurrent'))))
        res.digest = sim.digest()
        res.choices = sim.ch.rec
        res.vt = run['vt']
        res.stats['steps'] = sim.steps
        return res

    def describe(self, case):
        return case['plan'][0]

    def simplify(self, case):
        op = case['plan'][0]
        for i in range(len(op['faults'])):
            yield dict(plan=[dict(op, faults=op['faults'][:i] + op['faults'][i + 1:])])
        if op.get('concurrent'):
            yield dict(plan=[dict(op, concurrent=False)])
        if op['urls'] > 1:
            yield dict(plan=[dict(op, urls=op['urls'] - 1)])


FAMILY = DaemonFaultFamily()


def _enum_chunk(args):
    import logging
    logging.disable(logging.CRITICAL)
    calls, urls_list, seqs = args
    bad = []
    n = 0
    for seq in seqs:
        for call in calls:
            for urls in urls_list:
                op = dict(op='call', call=call, urls=urls, faults=list(seq), init=0.25, max=4.0,
                          concurrent=False, seed=0)
                r = FAMILY.execute(dict(plan=[op]), Chooser(0))
                n += 1
                if r.violations or r.harness_error:
                    bad.append((op, [x.to_json() for x in r.violations], r.harness_error))
                    if len(bad) > 3:
                        return n, bad
    return n, bad


def enumerate_sequences(tier, seed):
    """Exhaustive: every fault sequence up to length L over the 8-letter alphabet x every call kind x
    1..k URLs, default back-off constants, sequential calls."""
    from sim import runner
    L = 3 if tier == 'quick' else 5
    urls_list = [1, 2] if tier == 'quick' else [1, 2, 3]
    calls = list(CALLS)
    seqs = [s for n in range(L + 1) for s in itertools.product(FAULTS, repeat=n)]
    nproc = runner.NPROC
    chunks = [seqs[i::nproc * 4] for i in range(nproc * 4)]
    ctx = multiprocessing.get_context('fork')
    total, bad = 0, []
    with cf.ProcessPoolExecutor(max_workers=nproc, mp_context=ctx) as ex:
        for n, b in ex.map(_enum_chunk, [(calls, urls_list, c) for c in chunks]):
            total += n
            bad.extend(b)
    out = dict(coverage=dict(evaluations=total, distinct_nontrivial=total - len(calls) * len(urls_list),
                             enumerated_sequences=len(seqs), enumeration_bound=L,
                             enumeration_exhaustive=True,
                             samples=[dict(call='get_block', urls=2, faults=['midbody', 'timeout', 'warmup'])]),
               violations=[])
    for op, vs, herr in bad[:2]:
        case = dict(plan=[op])
        res = FAMILY.execute(case, Chooser(0))
        if res.violations:
            path = runner.write_replay('C18', 'daemonfaults', 0, case, list(res.choices), res,
                                       res.violations[0].signature(), tier, note='from exhaustive enumeration')
            print('violation:', res.violations[0])
            out['violations'].append(dict(replay=path, known=None))
    return out
