"""Family `index` (C01, C02): any valid chain x fetch batching x flush placement, audited against
RefIndex at every catch-up checkpoint.  DESIGN.md 7/C01, C02."""
from props.common import Family, swarm_knobs, ntx_list
from sim.plan import Driver


class IndexDriver(Driver):
    LIVENESS_PROP = 'C01'
    AUDIT_PROPS = ('C01', 'C02', 'C03')

    def setup(self):
        sim = self.w.sim

        def observe(tag, detail):
            if tag == 'commit':
                srv = self.w.server
                bp = srv.bp if srv else None
                self.mark('commit', detail[0], bp.state.height if bp and bp.state else None)
        sim.dop_observer = observe

    def teardown(self):
        p = self.w.sim.probes
        st = self.w.sim.stats
        # non-trivial: a spend was served from the DB and an intermediate flush happened
        self.res.nontrivial = bool(p.get('spend_from_db') and
                                   (st.get('poke.full') or st.get('poke.hist')
                                    or st.get('db.commit', 0) > 4) and self.res.probes.get('audits'))


class IndexFamily(Family):
    name = 'index'
    driver = IndexDriver

    def gen(self, rng, tier, prop):
        k = swarm_knobs(rng)
        n0 = rng.choice([3, 8, 15, 25, 40, 60] if tier == 'quick' else [3, 8, 15, 25, 40, 60, 90, 120])
        k['activation'] = rng.randint(1, n0 + 6)
        if n0 > 15 and k['chunk_size'] < 64:
            k['chunk_size'] = 64      # tiny chunks cost thousands of thread switches per block
        plan = [dict(op='mine', n=n0, ntx=ntx_list(rng, n0, heavy=(tier != 'quick')),
                     seed=rng.getrandbits(32)),
                dict(op='start'),
                dict(op='poker', period=rng.choice([(0.01, 0.3), (0.05, 2.0), (0.5, 10.0)]),
                     p_full=rng.choice([0.2, 0.5, 0.8]))]
        for _ in range(rng.randint(1, 3)):
            # the daemon keeps growing while the server syncs
            for _ in range(rng.randint(0, 3)):
                n = rng.randint(1, 4)
                plan.append(dict(op='mine', n=n, ntx=ntx_list(rng, n), at=round(rng.uniform(0.0, 8.0), 3),
                                 seed=rng.getrandbits(32)))
            plan.append(dict(op='sync'))
        if rng.random() < 0.3:
            plan.append(dict(op='restart'))
            plan.append(dict(op='mine', n=2, ntx=ntx_list(rng, 2), seed=rng.getrandbits(32)))
            plan.append(dict(op='sync'))
        return dict(knobs=k, plan=plan)


FAMILY = IndexFamily()
