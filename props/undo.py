from props.reorg import UNDO as FAMILY  # noqa: F401
