from props.reorg import UNDO as FAMILY  # noqa: F401

CHECK = dict(
    property='C15', level='exploration',
    families=[('undo', 1.0)],
    budget=dict(quick=50, thorough=900), max_runs=dict(quick=200_000, thorough=5_000_000),
    rule=('a fork after a restart whose abandoned blocks are downloaded again while the disk is full for one block-file write (the reorganisation stops half-way and is taken up again); forks found while indexed blocks are still unflushed; the server must not stop on an exception of its own over a fork within the limit (clause server.died); each evaluation = one simulated run: reorg limit L in {1,2,3,5,8,>chain}; daemon-height '
          'trajectory during the initial sync (far ahead / growing / caught block by block); clean stops and '
          'crashes at random points, each followed by a check right after the databases were opened (no undo '
          'row below stored height-L+1, and no row inside [h-L+1,h] that existed before the stop is lost - also when '
          'the stop interrupted a reorganisation and stale rows above the tip exist); once caught up at H an undo row must exist for every height in '
          '[max(1,H-L+1),H] whatever the origin of the block; then, from a snapshot of the durable state, '
          'continuations with a fork of depth exactly L-1, L (must complete; final index = RefIndex) and L+1 '
          'right after a restart (must be refused and leave a clean index of the stored height). '
          'non-trivial = the window oracle was evaluated; distinct = distinct interleaving signature'),
    assumptions=['the daemon height is non-decreasing in this family (a block indexed while the daemon was '
                 'higher than at catch-up may legitimately lack undo information)',
                 'a simulated plyvel module (under the real LevelDB class of electrumx.server.storage) and SimFS stand in for the LevelDB engine and the file system'],
    required_probes=['undo.window_checked', 'undo.open_checked', 'fork_exact.delta+0', 'fork_exact.delta+1',
                     'fork_exact.delta-1', 'fork_exact.refused.ChainError', 'undo.open_with_rows_above_tip'],
)
