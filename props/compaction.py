"""Family `compaction` (C14): an index built by the real server with many flushes, the real
electrumx_compact_history tool (end to end, and its inner loop with other batch limits) killed at any
durable operation / stopped after any batch, resumed or abandoned, then the server with new blocks and
reorganisations on top.  DESIGN.md 7/C14."""
import asyncio
import os
import struct
from importlib.machinery import SourceFileLoader

from props.common import Family, swarm_knobs, ntx_list
from props.reorg import ReorgDriver, ReorgFamily
from sim.kernel import SimCrash
from sim.chaingen import HASHX_LEN

_tool = {}


def load_tool():
    if 'm' not in _tool:
        path = os.path.join(os.environ.get('VERIF_REPO', '/repo'), 'electrumx_compact_history')
        _tool['m'] = SourceFileLoader('electrumx_compact_history_tool', path).load_module()
    return _tool['m']


class CompactionDriver(ReorgDriver):
    FAMILY_PROP = dict(ReorgDriver.FAMILY_PROP, compaction='C14')

    def raw_histories(self, max_flush_id=None):
        d = self.w.store.dbs.get('hist')
        out = {}
        rows = {}
        if d is None:
            return out, rows
        for k, v in d.items():
            if len(k) != HASHX_LEN + 2:
                continue
            if max_flush_id is not None and int.from_bytes(k[-2:], 'big') > max_flush_id:
                continue        # a row of a history flush that ran ahead of the last UTXO flush
            out.setdefault(k[:-2], bytearray()).extend(v)
            rows[k[:-2]] = rows.get(k[:-2], 0) + 1
        return ({hx: [int.from_bytes(b[i:i + 5], 'little') for i in range(0, len(b), 5)]
                 for hx, b in out.items()}, rows)

    def op_snapshot_hist(self, op):
        if getattr(self, 'skip_rest', False):
            return
        self.op_poker(dict(op='poker', on=False))
        self.op_stop(op)
        self.unclean = False
        self.hazard_rows_above_prev = getattr(self, 'hazard_rows_above', None)
        self.hist_before, _rows = self.raw_histories()
        self.probe('c14.snapshots')

    def op_snapshot_hist_unclean(self, op):
        """The server died between a history flush and the matching UTXO flush: the histories the database
        stands for are the rows up to the UTXO flush count (what every open keeps)."""
        w = self.w
        if w.server is not None:
            w.crash()
        st = self.stored_state()
        uf = st['utxo_flush_count'] if st else 0
        import ast
        hst = w.store.dbs['hist'].get(b'state\0\0')
        hf = ast.literal_eval(hst.decode())['flush_count'] if hst else 0
        self.hist_before, _rows = self.raw_histories(max_flush_id=uf)
        self.unclean = True
        self.probe('c14.snapshots')
        if hf > uf:
            self.probe('c14.unclean_db_with_excess_rows')

    def op_check_hist(self, op):
        flt = None
        if getattr(self, 'unclean', False):
            # while the excess rows of the unclean shutdown have not been cleared yet (the tool died before
            # its own clean-up committed) the database still stands for the rows up to the UTXO flush count
            import ast
            st = self.stored_state()
            hst = self.w.store.dbs['hist'].get(b'state\0\0')
            hf = ast.literal_eval(hst.decode())['flush_count'] if hst else 0
            if st and hf > st['utxo_flush_count'] and getattr(self, 'hazard_rows_above', None) is None:
                flt = st['utxo_flush_count']
        now, rows = self.raw_histories(max_flush_id=flt)
        self.max_rows = max(rows.values()) if rows else 0
        if now != self.hist_before:
            bad = [hx for hx in set(now) | set(self.hist_before) if now.get(hx) != self.hist_before.get(hx)]
            hx = bad[0]
            self.violate('C14', 'history.changed', f'{op.get("when", "")}: history of {hx.hex()} changed: '
                         f'{len(self.hist_before.get(hx, []))} tx numbers before, {len(now.get(hx, []))} now '
                         f'({len(bad)} script hashes differ); before {self.hist_before.get(hx, [])[:8]} now '
                         f'{now.get(hx, [])[:8]}', [hx])
        self.probe('c14.history_checks')

    def op_compact(self, op):
        """Run the compaction tool on a fresh loop like a separate process would."""
        w = self.w
        if getattr(self, 'skip_rest', False):
            return
        if w.server is not None:
            self.op_stop(op)
        sim = w.sim
        w._install()
        w.incarnations += 1
        loop = w._new_loop()
        asyncio.set_event_loop(loop)
        w.make_env()
        tool = load_tool()
        skip = op.get('crash_skip')
        state = dict(hits=0)

        def hook(tag, detail):
            if skip is None:
                return False
            state['hits'] += 1
            if state['hits'] > skip:
                state['at'] = (tag, detail)
                return True
            return False
        sim.crash_hook = hook
        ioskip = op.get('ioerr_skip')
        iostate = dict(hits=0, fired=False)

        def iohook(tag, detail):
            # one transient disk error (ENOSPC) at the (ioerr_skip+1)-th durable operation of the tool
            if ioskip is None or iostate['fired']:
                return False
            iostate['hits'] += 1
            if iostate['hits'] > ioskip:
                iostate['fired'] = True
                iostate['at'] = (tag, detail)
                return True
            return False
        sim.ioerr_hook = iohook
        mode = op.get('mode', 'tool')

        async def inner_loop():
            # the tool's own loop with another batch limit
            from electrumx.server.env import Env
            from electrumx.server.db import DB
            os.environ['DAEMON_URL'] = ''
            db = DB(Env())
            await db.open_for_compacting()
            assert not db.state.first_sync
            history = db.history
            if history.comp_cursor == -1:
                history.comp_cursor = 0
            history.comp_flush_count = max(history.comp_flush_count, 1)
            nbatch = 0
            while history.comp_cursor != -1:
                history._compact_history(op['limit'])
                nbatch += 1
                if op.get('stop_after') and nbatch >= op['stop_after'] and history.comp_cursor != -1:
                    self.probe('c14.stopped_between_batches')
                    return 'stopped'
            db.set_flush_count(history.flush_count)
            return 'done'

        outcome = None
        try:
            if mode == 'tool':
                loop.run_until_complete(tool.compact_history())
                outcome = 'done'
            else:
                outcome = loop.run_until_complete(inner_loop())
        except SimCrash:
            outcome = 'crashed'
            self.probe('c14.crash.' + str(state.get('at', ('?',))[0]))
        except AssertionError as e:
            outcome = 'assert'
            import traceback
            self.res.notes.append('tool assertion ' + traceback.format_exc()[-1200:].replace(chr(10), ' | '))
        except OSError as e:
            if iostate['fired']:
                outcome = 'ioerror'         # the tool gave up on the disk error: as good as killed
            else:
                outcome = 'raised'
                self.violate('C14', 'tool.raised', f'the compaction tool failed: {e!r}')
        except Exception as e:      # noqa: B902
            outcome = 'raised'
            self.violate('C14', 'tool.raised', f'the compaction tool failed: {e!r}')
        finally:
            sim.crash_hook = None
            sim.ioerr_hook = None
            if iostate['fired']:
                self.probe('c14.io_error_injected')
            sim.dead = True
            try:
                asyncio.set_event_loop(None)
                loop.close()
            except Exception:
                pass
        if (outcome == 'crashed' and state.get('at', ('',))[0] == 'put') or \
                (outcome == 'ioerror' and iostate.get('at', ('',))[0] == 'put'):
            # hazard recogniser: killed (or dying of a disk error) between the final history batch and
            # set_flush_count
            import ast
            hst = self.w.store.dbs['hist'].get(b'state\0\0')
            ust = self.w.store.dbs['utxo'].get(b'state')
            hf = ast.literal_eval(hst.decode())['flush_count']
            uf = ast.literal_eval(ust.decode())['utxo_flush_count']
            if hf > uf:
                self.probe('hazard.compaction_done_but_utxo_flush_count_stale')
                self.hazard_rows_above = uf
        self.mark('compact', mode, op.get('limit'), outcome)
        self.probe('c14.compact.' + outcome)
        self.last_compact = outcome
        self.op_check_hist(dict(when=f'after compaction ({mode}, {outcome})'))

    def op_maybe_start(self, op):
        """Start the server after a complete or abandoned compaction.  The abandoned-then-keep-
        indexing clause is restricted (by the property) to databases where no script hash has more
        compacted rows than the flush count."""
        if getattr(self, 'skip_rest', False):
            return
        st = self.w.store.dbs.get('hist', {}).get(b'state\0\0')
        import ast
        fc = ast.literal_eval(st.decode())['flush_count'] if st else 0
        _h, rows = self.raw_histories()
        if self.last_compact != 'done' and rows and max(rows.values()) > fc:
            self.probe('c14.excluded_by_quantifier')
            self.skip_rest = True
            return
        self.skip_rest = False
        self.w.start()
        self.probe('c14.server_started_after.' + str(self.last_compact))

    def op_sync(self, op):
        if getattr(self, 'skip_rest', False):
            return
        super().op_sync(op)

    def op_fork(self, op):
        if getattr(self, 'skip_rest', False):
            return
        super().op_fork(op)

    def op_mine(self, op):
        if getattr(self, 'skip_rest', False):
            return
        super().op_mine(op)

    def teardown(self):
        super().teardown()
        p = self.res.probes
        self.res.nontrivial = bool(p.get('c14.history_checks', 0) >= 1 and
                                   (p.get('c14.compact.done') or p.get('c14.compact.crashed')
                                    or p.get('c14.compact.stopped') or p.get('c14.compact.ioerror')))


class CompactionFamily(ReorgFamily):
    name = 'compaction'
    driver = CompactionDriver

    def execute(self, case, chooser, trace=False, logs=False):
        d = self.driver(case, chooser, trace=trace, logs=logs)
        res = d.run()
        res.hazard_keys = {'C05-backup-crash': d.hazard_keys_c05()}
        res.c14_hazard = getattr(d, 'hazard_rows_above', None)
        return res

    def known_finding(self, v, res):
        if v.prop == 'C14' and getattr(res, 'c14_hazard', None) is not None and \
                v.clause in ('history.changed', 'limited_history', 'raw.hist', 'raw.hist.missing',
                             'limited_history.nonterminating'):
            return 'C14-final-put-crash-small-flush-count'
        return super().known_finding(v, res)

    def gen(self, rng, tier, prop):
        k = swarm_knobs(rng, faults=False)
        k['max_hist_row'] = rng.choice([2, 3, 5, 12, 50, None])
        k['line_p'] = 0.0
        k['stall_p'] = 0.0
        if rng.random() < 0.6:
            # the wide script pool has script hashes that share their two-byte compaction prefix
            k['gen_weights'] = dict(wide_pool=True)
        n0 = rng.choice([8, 15, 25, 40])
        k['activation'] = rng.randint(1, n0)
        if k['chunk_size'] < 64:
            k['chunk_size'] = 64
        plan = [dict(op='mine', n=n0, ntx=ntx_list(rng, n0), seed=rng.getrandbits(32), keep=True),
                dict(op='start', keep=True),
                dict(op='poker', period=rng.choice([(0.01, 0.2), (0.05, 1.0)]), p_full=rng.choice([0.3, 0.7]),
                     keep=True),
                dict(op='sync', keep=True),
                dict(op='poker', on=False, keep=True),
                # one more block while caught up: the state record with first_sync=False is only
                # written by a flush at a new height, and the tool insists on it
                dict(op='mine', n=1, ntx=[3], seed=rng.getrandbits(32), keep=True),
                dict(op='sync', keep=True),
                dict(op='snapshot_hist', keep=True)]
        if rng.random() < 0.2:
            # "any database": one left by a server that died between a history flush and the UTXO flush
            plan[-1:] = [dict(op='start', keep=True),
                         dict(op='poker', period=(0.01, 0.2), p_full=0.2, keep=True),
                         dict(op='mine', n=rng.randint(2, 5), ntx=ntx_list(rng, 4), seed=rng.getrandbits(32),
                              keep=True),
                         dict(op='crash_when', cond='flushop', skip=rng.choice([3, 4, 5, 8, 9, 13, 14]), window=60.0,
                              keep=True),
                         dict(op='poker', on=False, keep=True),
                         dict(op='snapshot_hist_unclean', keep=True)]
        # one to three rounds of: the tool (possibly interrupted several times, possibly abandoned), then the
        # server with new blocks and reorganisations on top (stopped cleanly before the next round)
        rounds = rng.choice([1, 1, 2, 3])
        for rnd in range(rounds):
            if rnd:
                plan.append(dict(op='snapshot_hist', keep=True))
            for _ in range(rng.randint(1, 3)):
                mode = rng.choice(['tool', 'loop', 'loop'])
                o = dict(op='compact', mode=mode)
                if mode == 'loop':
                    o['limit'] = rng.choice([1, 1, 40, 400, 8_000_000])
                    if rng.random() < 0.3:
                        o['stop_after'] = rng.randint(1, 6)
                if rng.random() < 0.6:
                    o['crash_skip'] = rng.choice([0, 0, 1, 1, 2, 3, 5, 8, 13])
                if rng.random() < 0.25:
                    o['ioerr_skip'] = rng.choice([0, 0, 1, 1, 2, 3, 5, 8])     # a full disk at one write
                plan.append(o)
            if rng.random() < (0.5 if rnd == 0 else 0.8):
                plan.append(dict(op='compact', mode='tool'))       # run to completion
            plan.append(dict(op='maybe_start'))
            plan.append(dict(op='sync'))
            for _ in range(rng.randint(1, 2)):
                if rng.random() < 0.5:
                    plan.append(dict(op='fork', depth=rng.choice([1, 2, 3]), extra=1, ntx=ntx_list(rng, 3),
                                     remine=0.5, seed=rng.getrandbits(32)))
                n = rng.randint(1, 3)
                plan.append(dict(op='poker', period=(0.01, 0.2), p_full=0.5))
                plan.append(dict(op='mine', n=n, ntx=ntx_list(rng, n), seed=rng.getrandbits(32)))
                plan.append(dict(op='sync'))
        return dict(family='compaction', knobs=k, plan=plan)


FAMILY = CompactionFamily()
