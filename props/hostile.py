"""Family `hostile` (C16): a hostile client is one more fault source in the full-server simulation.
Against a populated, quiescent server with good clients subscribed, it sends every protocol method
with one argument at a time replaced by each value of a corpus of JSON shapes (positional and named,
arity errors, random tuples, hostile server.add_peer feature dictionaries) through the real framer /
JSON-RPC / dispatch path.  DESIGN.md 7/C16 and section 9."""
import json
import random

from props.common import ntx_list
from props.server import ClientDriver, SubsFamily, SH
from sim.chaingen import hex_hash

INTERNAL_ERROR = -32603

BIG = '1' + '0' * 400
CORPUS = [
    'null', 'true', 'false', '0', '-1', '1', '2', '2147483648', '9223372036854775808',
    '1000000000000000000000000000000', BIG, '-' + BIG, '1.5', '-0.0', '1e30', 'NaN', 'Infinity', '-Infinity',
    '1e999', '-1e999', '""', '"0"', '"zz"', '"abc"', '"' + 'a' * 63 + '"', '"' + 'a' * 64 + '"',
    '"' + 'a' * 65 + '"', '"' + 'A' * 64 + '"', '"\\u0000"', '"x\\u0000y"', '"\\u00e9\\u4e2d"', '"\\ud800"',
    '"' + 'b' * 10000 + '"', '"' + ('ab ' * 22)[:64] + '"', '"' + ' ' * 64 + '"', '"' + '0x' + 'a' * 62 + '"',
    '[]', '[[]]', '[1, 2]', '{}', '{"a": 1}', '[' * 50 + ']' * 50, '{"a":' * 30 + '1' + '}' * 30,
    '"txid"', '"block_hash"', '"1.4"', '["1.4", "1.4.2"]', '[1, 2, 3]', '"-1"', '" 5"', '"5 "',
]

HOSTS = ['a..b', '.', 'a' * 64 + '.com', 'x\\u0000y.com', '\\ud800.com', 'localhost', '127.0.0.1', '10.1.2.3',
         'example.com', '8.8.8.8', '::1', '2001:db8::1', 'h.onion', 'x' * 300, '', ' ', 'a b.com', '-a.com',
         '1.2.3', '999.999.999.999', 'EXAMPLE.com', 'xn--', '[::1]', 'a.b.c.d.e.f.example.org',
         'b\\u00fccher.example', '\\uff4cocalhost', 'local\\u00adhost', 'foo\\u3002onion', 'ex\\u00e4mple.org',
         '100.64.3.4', '198.51.100.7', 'fe80::2', 'ff02::1', '0.0.0.0']
PORTS = ['50001', '0', '-1', '65535', '65536', 'true', 'false', 'null', '"50001"', '1.5', 'Infinity', 'NaN',
         '1e999', BIG, '[]', '{}', '""']


def features_corpus(rng, genesis):
    out = []
    for _ in range(6):
        hosts = {}
        for _ in range(rng.randint(0, 3)):
            h = rng.choice(HOSTS)
            ports = {}
            for key in rng.sample(['tcp_port', 'ssl_port', 'ws_port', 'x'], rng.randint(0, 3)):
                ports[key] = rng.choice(PORTS)
            hosts[h] = ports
        hosts_txt = '{' + ','.join('"%s": {%s}' % (h, ','.join('"%s": %s' % kv for kv in p.items()))
                                   for h, p in hosts.items()) + '}'
        if rng.random() < 0.15:
            hosts_txt = rng.choice(CORPUS)
        fields = {
            'hosts': hosts_txt,
            'genesis_hash': rng.choice(['"%s"' % genesis, '"00"', 'null', '5']),
            'protocol_min': rng.choice(['"1.4"', '1.4', 'null', '"x"', '[]']),
            'protocol_max': rng.choice(['"1.4.2"', '"9"', 'Infinity', '{}']),
            'server_version': rng.choice(['"ElectrumX 1.20.2"', '1', 'null', '"' + 'v' * 500 + '"']),
            'pruning': rng.choice(['null', '100', 'Infinity', '-1e999', '"x"', 'true', '1.5', '[]']),
            'hash_function': '"sha256"',
        }
        keys = [k for k in fields if rng.random() < 0.85]
        out.append('{' + ','.join('"%s": %s' % (k, fields[k]) for k in keys) + '}')
    return out


class HostileDriver(ClientDriver):

    def templates(self):
        d = self.w.daemon
        chain = d.chain()
        h = max(1, d.height // 2)
        txid = '"%s"' % hex_hash(chain[h].txs[-1].hash)
        sh = '"%s"' % SH[0]
        raw = '"%s"' % chain[h].txs[-1].raw.hex()
        return [
            ('blockchain.block.header', ['height', 'cp_height'], [str(h), str(d.height)]),
            ('blockchain.block.headers', ['start_height', 'count', 'cp_height'], ['1', '3', str(d.height)]),
            ('blockchain.estimatefee', ['_number'], ['2']),
            ('blockchain.headers.subscribe', [], []),
            ('blockchain.relayfee', [], []),
            ('blockchain.scripthash.get_balance', ['scripthash'], [sh]),
            ('blockchain.scripthash.get_history', ['scripthash'], [sh]),
            ('blockchain.scripthash.get_mempool', ['scripthash'], [sh]),
            ('blockchain.scripthash.listunspent', ['scripthash'], [sh]),
            ('blockchain.scripthash.subscribe', ['scripthash'], [sh]),
            ('blockchain.scripthash.unsubscribe', ['scripthash'], [sh]),
            ('blockchain.transaction.broadcast', ['raw_tx'], [raw]),
            ('blockchain.transaction.get', ['tx_hash', 'verbose'], [txid, 'false']),
            ('blockchain.transaction.get_merkle', ['tx_hash', 'height'], [txid, str(h)]),
            ('blockchain.transaction.get_tsc_merkle', ['tx_hash', 'height', 'txid_or_tx', 'target_type'],
             [txid, str(h), '"txid"', '"block_hash"']),
            ('blockchain.transaction.id_from_pos', ['height', 'tx_pos', 'merkle'], [str(h), '0', 'true']),
            ('mempool.get_fee_histogram', [], []),
            ('server.add_peer', ['features'], ['{"hosts": {"example.com": {"tcp_port": 50001}}}']),
            ('server.banner', [], []),
            ('server.donation_address', [], []),
            ('server.features', [], []),
            ('server.peers.subscribe', [], []),
            ('server.ping', [], []),
            ('server.version', ['client_name', 'protocol_version'], ['"x"', '"1.4"']),
            ('no.such.method', [], []),
        ]

    def session_of(self, client):
        smgr = self.w.server.smgr
        if client.conn is None:
            return None
        for s in smgr.sessions:
            ra = s.remote_address()
            if ra is not None and str(ra.host) == client.conn.addr_b[0] and ra.port == client.conn.addr_b[1]:
                return s
        return None

    def snapshot(self, sess):
        smgr = self.w.server.smgr
        return (dict(getattr(sess, 'hashX_subs', {})) if sess else None,
                dict(getattr(sess, 'mempool_statuses', {})) if sess else None,
                getattr(sess, 'subscribe_headers', None) if sess else None,
                frozenset(smgr._history_cache.keys()), frozenset(smgr._tx_hashes_cache.keys()),
                frozenset(smgr._merkle_cache.keys()))

    def op_hostile(self, op):
        w = self.w
        if w.server is None or w.server.smgr is None:
            return
        rng = random.Random(op['seed'])
        tmpl = self.templates()
        genesis = w.server.env.coin.GENESIS_HASH
        feats = features_corpus(rng, genesis)
        hc = w.new_client('hostile', addr=('9.9.9.9', None))
        good_before = [(c, len(c.notifs)) for c in self.cl if c.connected]
        nreq = op.get('n', 200)
        sent = 0
        for _ in range(nreq):
            if not (hc.connected and hc.conn.alive):
                if not hc.connect():
                    break
                if rng.random() < 0.5:
                    self.ask(hc, 'server.version', ['hostile', '1.4.2'])
            method, names, valid = tmpl[rng.randrange(len(tmpl))]
            args = list(valid)
            kind = rng.random()
            if method == 'server.version' and rng.random() < 0.7:
                # only the first server.version of a session looks at its arguments: ask on a fresh session
                hc.disconnect()
                if not hc.connect():
                    break
            if method == 'server.add_peer' and kind < 0.7:
                args = [rng.choice(feats)]
            elif kind < 0.22 and args:
                # well-typed boundary values for every argument at once (semantic corner combinations)
                tip = w.daemon.height
                ints = ['0', '0', '1', '2', str(tip), str(tip + 1), str(tip - 1), '2016', '2017', 'true', 'false',
                        '"0"', '"1"', '0.0', '1.0']
                for j, a in enumerate(valid):
                    if rng.random() < 0.6:
                        if a.lstrip('-').isdigit():
                            args[j] = rng.choice(ints)
                        elif a in ('true', 'false'):
                            args[j] = rng.choice(['true', 'false', '0', '1'])
                        elif a.startswith('"') and len(a) < 20:
                            args[j] = rng.choice(['"txid"', '"tx"', '"block_hash"', '"block_header"', '"merkle_root"',
                                                  '"None"', '[]', '{}', '[1]', '""', 'null'])
            elif kind < 0.7 and args:
                args[rng.randrange(len(args))] = rng.choice(CORPUS)
            elif kind < 0.8:
                args = [rng.choice(CORPUS) for _ in range(rng.randint(0, len(args) + 2))]
            elif kind < 0.87:
                args = args[:rng.randrange(len(args) + 1)]        # too few
            elif kind < 0.92:
                args = args + [rng.choice(CORPUS)]                 # too many
            named = bool(names) and len(args) <= len(names) and rng.random() < 0.3
            if named:
                params = '{' + ','.join('"%s": %s' % (n, a) for n, a in zip(names, args)) + '}'
                if rng.random() < 0.1:
                    params = params[:-1] + (',' if len(params) > 2 else '') + '"bogus": 1}'
            else:
                params = '[' + ','.join(args) + ']'
            if rng.random() < 0.03:
                params = rng.choice(CORPUS)                         # params itself of a wrong shape
            rid = hc.next_id
            raw = ('{"jsonrpc": "2.0", "id": %d, "method": "%s", "params": %s}' % (rid, method, params)).encode()
            sess = self.session_of(hc)
            before = self.snapshot(sess)
            box = {}
            hc.send(method, params[:60], cb=lambda rec: box.setdefault('r', rec), raw=raw)
            sent += 1
            r = w.run(lambda: 'r' in box, 400.0)
            rec = box.get('r')
            desc = f'{method} params {params[:120]}'
            if w.server is None:
                self.violate('C16', 'server.died', f'the server stopped after {desc}: {w.server_exits[-1:]}')
                return
            if rec is None:
                self.violate('C16', 'no_reply', f'no reply within 400 virtual s to {desc}')
                hc.disconnect()
                continue
            if rec.get('closed'):
                # the server may disconnect (unsupported protocol version, oversized request...)
                self.probe('c16.disconnected_by_server')
                continue
            if 'error' in rec:
                self.probe('c16.error_replies')
                code = rec['error'].get('code') if isinstance(rec['error'], dict) else None
                if code == INTERNAL_ERROR:
                    self.violate('C16', 'internal_error', f'{desc} failed with an internal exception: '
                                 f'{str(rec["error"])[:160]}')
                    continue
                if code == -102:
                    self.probe('c16.request_timed_out')      # a server-side time-out is no refusal
                    continue
                after = self.snapshot(self.session_of(hc))
                # session state and the history cache must be untouched by a refused request; the
                # per-height caches may gain (correct) entries when a well-formed request fails for
                # a semantic reason (tx not in that block) - their content is judged by the answer
                # sweep of the other clients afterwards
                if before[0] is not None and after[0] is not None and after[:4] != before[:4]:
                    what = [n for n, a, b in zip(('hashX_subs', 'mempool_statuses', 'subscribe_headers',
                                                  'history cache'), before, after) if a != b]
                    self.violate('C16', 'state_changed_on_error', f'{desc} was refused ({str(rec["error"])[:80]}) '
                                 f'but changed {what}')
            else:
                self.probe('c16.result_replies')
                # reference validators: a script hash / tx hash is exactly 64 hex digits
                bad_arg = None
                if not named and params.startswith('[') and args:
                    hexarg = None
                    if method.startswith('blockchain.scripthash.') or method in (
                            'blockchain.transaction.get', 'blockchain.transaction.get_merkle',
                            'blockchain.transaction.get_tsc_merkle'):
                        hexarg = args[0]
                    if hexarg is not None:
                        try:
                            val = json.loads(hexarg)
                        except ValueError:
                            val = None
                        ok = isinstance(val, str) and len(val) == 64 and all(
                            ch in '0123456789abcdefABCDEF' for ch in val)
                        if not ok:
                            bad_arg = hexarg[:80]
                if bad_arg is not None:
                    self.violate('C16', 'accepted_malformed_hash', f'{desc}: the hash argument {bad_arg} is '
                                 f'not 64 hex digits but the request was answered with a result '
                                 f'{str(rec.get("result"))[:80]}')
        self.probe('c16.requests', sent)
        # good clients must not have been told anything because of the hostile requests
        for c, n in good_before:
            new = c.notifs[n:]
            if new and w.daemon.version == getattr(self, 'version_at_sweep', w.daemon.version):
                self.probe('c16.good_client_notified')
        hc.disconnect()

    def op_hostile_slow(self, op):
        """Requests refused for a reason of the server's own - its request time-out while the disk is slow:
        the history reads made on behalf of client requests stall for longer than REQUEST_TIMEOUT (a per-run
        knob, 2-5 s here).  A request that is answered with an error - of whatever kind - must not have added
        a subscription (session state is compared before / after, as for every other refusal)."""
        w = self.w
        sim = w.sim
        if w.server is None or w.server.smgr is None:
            return
        rng = random.Random(op['seed'])
        hc = w.new_client('hostile-slow', addr=('9.9.9.8', None))
        if not hc.connect():
            return
        self.ask(hc, 'server.version', ['slow', '1.4.2'])
        saved = (sim.stall_boost, sim.stall_max, sim.preempt)
        rt = w.k['request_timeout']
        sim.preempt = True
        sim.stall_max = 4.0 * rt
        sim.stall_boost = ('read_history', 1.0, 'RPCSession', 'timed')
        try:
            for _ in range(op.get('n', 6)):
                if not (hc.connected and hc.conn.alive):
                    break
                method = rng.choice(['blockchain.scripthash.subscribe'] * 3 + ['blockchain.scripthash.get_history',
                                                                               'blockchain.headers.subscribe'])
                params = [] if method.endswith('headers.subscribe') else [SH[rng.randrange(len(SH))]]
                sess = self.session_of(hc)
                before = self.snapshot(sess)
                rec = self.ask(hc, method, params, timeout=400.0)
                self.probe('c16.slow_requests')
                if w.server is None:
                    self.violate('C16', 'server.died', f'the server stopped after {method}')
                    return
                if rec is None or rec.get('closed'):
                    continue
                if 'error' in rec:
                    code = rec['error'].get('code') if isinstance(rec['error'], dict) else None
                    if code == INTERNAL_ERROR:
                        self.violate('C16', 'internal_error', f'{method} {params} failed with an internal '
                                     f'exception: {str(rec["error"])[:160]}')
                        continue
                    if code == -102:
                        self.probe('c16.slow_request_timed_out')
                    after = self.snapshot(self.session_of(hc))
                    if before[0] is not None and after[0] is not None and \
                            (set(after[0]) != set(before[0]) or after[2] != before[2]):
                        self.violate('C16', 'state_changed_on_error',
                                     f'{method} {params} was refused ({str(rec["error"])[:80]}) but the '
                                     f"session's subscriptions changed: script hashes "
                                     f'{len(before[0])} -> {len(after[0])}, headers {before[2]} -> {after[2]}')
        finally:
            sim.stall_boost, sim.stall_max, sim.preempt = saved
        hc.disconnect()

    def op_hostile_exact(self, op):
        """Explicit requests (used by committed replays of findings)."""
        w = self.w
        hc = w.new_client('hostile', addr=('9.9.9.9', None))
        if not hc.connect():
            return
        for method, params in op['requests']:
            rid = hc.next_id
            raw = ('{"jsonrpc": "2.0", "id": %d, "method": "%s", "params": %s}' % (rid, method, params)).encode()
            box = {}
            hc.send(method, params[:60], cb=lambda rec: box.setdefault('r', rec), raw=raw)
            w.run(lambda: 'r' in box, 400.0)
            rec = box.get('r')
            self.probe('c16.requests')
            if rec is None:
                self.violate('C16', 'no_reply', f'{method} {params[:100]}')
            elif 'error' in rec and isinstance(rec['error'], dict) and rec['error'].get('code') == INTERNAL_ERROR:
                self.violate('C16', 'internal_error', f'{method} params {params[:120]} failed with an '
                             f'internal exception: {str(rec["error"])[:160]}')
        hc.disconnect()

    def extra_settle_checks(self, refmp):
        if self.res.probes.get('c16.requests') and not self.res.violations:
            n = len(self.res.violations)
            self.check_answers(refmp, proofs=False)
            # what other clients are told must not be affected
            for v in self.res.violations[n:]:
                v.prop = 'C16'
                v.clause = 'other_clients.' + v.clause

    def teardown(self):
        super().teardown()
        self.res.nontrivial = bool(self.res.probes.get('c16.requests', 0) >= 20)


class HostileFamily(SubsFamily):
    name = 'hostile'
    driver = HostileDriver
    fam = 'hostile'

    def gen(self, rng, tier, prop):
        k, plan = self.base(rng, tier)
        k['fault_rate'] = 0.0
        k['stall_p'] = 0.0      # the hostile client is the fault source under study
        k['peer_discovery'] = 'on'
        k['extra_env'] = dict(PEER_ANNOUNCE='')
        if rng.random() < 0.5:
            # configuration-dependent paths: a client-name filter
            k['extra_env']['DROP_CLIENT'] = rng.choice(['badclient.*', '.*[Xx]pectrum', '1\\.[0-3]', 'None'])
        slow = rng.random() < 0.3
        if slow:
            k['request_timeout'] = rng.choice([2, 3, 5])
        nclients = rng.randint(1, 2)
        for c in range(nclients):
            plan.append(dict(op='c_hsub', c=c))
            for _ in range(rng.randint(1, 3)):
                plan.append(dict(op='c_sub', c=c, s=rng.randrange(8)))
        plan.append(dict(op='mp_add', n=rng.randint(0, 4), chain=0.5, seed=rng.getrandbits(32)))
        plan.append(dict(op='settle'))
        for _ in range(rng.randint(1, 2)):
            plan.append(dict(op='hostile', n=rng.choice([60, 150, 300]), seed=rng.getrandbits(32)))
            if slow:
                plan.append(dict(op='hostile_slow', n=rng.randint(3, 8), seed=rng.getrandbits(32)))
            if rng.random() < 0.5:
                n = rng.randint(1, 2)
                plan.append(dict(op='mine', n=n, ntx=ntx_list(rng, n), seed=rng.getrandbits(32)))
            plan.append(dict(op='settle'))
        return dict(family='hostile', knobs=k, plan=plan)


FAMILY = HostileFamily()
