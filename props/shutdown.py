from props.reorg import SHUTDOWN as FAMILY  # noqa: F401
