from props.reorg import CRASHFWD as FAMILY  # noqa: F401
