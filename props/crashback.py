from props.reorg import CRASHBACK as FAMILY  # noqa: F401
