from props.reorg import CRASHFWD as FAMILY  # noqa: F401

CHECK = dict(
    property='C04', level='fault_enumeration',
    families=[('crashfwd', 1.0)],
    budget=dict(quick=50, thorough=900), max_runs=dict(quick=200_000, thorough=5_000_000),
    rule=('in 12 % of the crash slots an allocation fails (MemoryError) while a write batch is being assembled and the process is killed 1-4 durable operations later or exits on the exception; each evaluation = one simulated run in which the server process is killed at the (skip+1)-th '
          'durable operation of a flush (each meta file write incl. torn prefixes 0 / half / len-1, each '
          'history / UTXO batch commit, each direct put), at any durable operation (block file writes, '
          'removals) or during the restart\'s own clean-up; history-only and full flushes at '
          'scheduler-chosen instants; the restarted server can be killed again; in 15 % of the crash slots the '
          'process instead dies of a disk-full error (ENOSPC at one durable operation, nothing of it applied) '
          'through its own exception / shutdown path. Oracle at reopen: the '
          'databases open, the stored height equals the height of the last UTXO batch that was applied '
          'before the crash, and every observable equals RefIndex(chain to that height); after resuming, '
          'the final state equals RefIndex(final chain) (= the uninterrupted run). quick samples crash '
          'positions across runs; in the thorough tier half of the evaluations are in-run enumerations: a '
          'reference pass counts the matching durable operations of one generated run, then the same seed is '
          're-run once per position (up to 160, torn-write variants cycled). non-trivial = a crash fired and an audit completed; '
          'distinct = distinct interleaving signature incl. the crash operation'),
    assumptions=['a simulated plyvel module (under the real LevelDB class of electrumx.server.storage) and SimFS stand in for the LevelDB engine and the file system (batches atomic, completed '
                 'operations durable: process death, not power loss)',
                 'the model bitcoind serves only valid chains; fork depth within the property\'s '
                 'quantifier (reorg limit counted from the highest height the daemon reported; chain '
                 'at least twice as high as the fork is deep)'],
    required_probes=['crash.fired', 'crash.at.write', 'crash.at.commit', 'crash.at.put', 'reopen_audits'],
)
