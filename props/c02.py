from props.index import FAMILY  # noqa: F401

CHECK = dict(
    property='C02', level='exploration',
    families=[('index', 0.85), ('stale', 0.1), ('compaction', 0.05)],
    budget=dict(quick=45, thorough=900), max_runs=dict(quick=200_000, thorough=5_000_000),
    rule=('in 5 % of the runs the history database additionally goes through the compaction tool (family compaction: '
          'completed, interrupted, repeated) before more blocks are indexed and audited; in 10 % of the runs the reported values are judged at the protocol level instead: real client sessions ask get_history for every script at quiescence, with a non-empty mempool and after reorgs (family stale), and the confirmed part must be the chain\'s list; '
          'otherwise each evaluation = one seeded simulated run of the real server (Controller.run) syncing a '
          'generated valid chain (collision coinbases, OP_RETURN forms around the activation height, '
          'same-block spend chains, zero-value / duplicate-script outputs) under per-run knobs '
          '(prefetch limit, reorg limit, chunk size, CACHE_MB, latencies, daemon faults, thread '
          'pre-emption granularity, stalls) with cache-pressure flushes (full / history-only) at '
          'scheduler-chosen instants while the daemon keeps growing; at every catch-up checkpoint '
          'limited_history (limits None,0,1,2,n-1,n,n+1,k), fs_tx_hash for every tx number, per-height tx ids and the raw history rows are compared with RefIndex. '
          'non-trivial = a spend was resolved from the DB (not the cache), an intermediate flush ran '
          'and an audit completed; distinct = distinct interleaving signature (sequence of mined '
          'heights, DB commits with the block-processor height at commit, sync points)'),
    assumptions=['a simulated plyvel module (under the real LevelDB class of electrumx.server.storage) and SimFS stand in for the LevelDB engine and the file system (validated by selftest '
                 'simdb_vs_plyvel)', 'the model bitcoind serves only valid chains',
                 'thread pre-emption only at storage seams (or source lines when line_p>0)',
                 'prefix collisions only between coinbase transactions'],
    required_probes=['spend_from_db', 'prefix_collision', 'audits'],
)
