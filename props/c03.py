from props.reorg import FAMILY as FAMILY  # noqa: F401

CHECK = dict(
    property='C03', level='exploration',
    families=[('reorg', 1.0)],
    budget=dict(quick=50, thorough=900), max_runs=dict(quick=200_000, thorough=5_000_000),
    rule=('the server must not stop on an exception of its own (other than a DaemonError) while following chain events inside the quantifier (clause server.died); each evaluation = one simulated run of the real server through a generated history of chain '
          'extensions, forks (depth 1..reorg limit, strictly longer, or equal/shorter followed by extension), '
          'forks discovered mid-batch, back-to-back forks, fork blocks re-mining / double-spending the '
          'abandoned branch, and forced reorgs through a real LocalRPC session, under cache-pressure '
          'flushes, daemon faults, thread stalls and seam-level pre-emption; once the daemon is frozen and '
          'the server caught up (bounded window) every observable (UTXOs, histories, tx map, headers, '
          'counts, chain size, tip, raw tables) is compared with RefIndex(final chain), i.e. with what a '
          'server that only ever saw the final chain reports; in 12 % (quick) / 35 % (thorough) of the runs that is '
          'done literally: a fresh simulated server indexes the final chain and its full snapshot (incl. raw '
          'tables and tx numbers) must be identical. non-trivial = >= 1 block was undone and an '
          'audit completed; distinct = distinct interleaving signature'),
    assumptions=['a simulated plyvel module (under the real LevelDB class of electrumx.server.storage) and SimFS stand in for the LevelDB engine and the file system (batches atomic, completed '
                 'operations durable: process death, not power loss)',
                 'the model bitcoind serves only valid chains; fork depth within the property\'s '
                 'quantifier (reorg limit counted from the highest height the daemon reported; chain '
                 'at least twice as high as the fork is deep)'],
    required_probes=['c03.differentials', 'backup_blocks', 'audits', 'fork.depth1', 'fork.depth3', 'admin_reorg.accepted', 'fork.exotic'],
)
