from props.limits import FAMILY  # noqa: F401

CHECK = dict(
    property='C17', level='exploration',
    families=[('limits', 1.0)],
    budget=dict(quick=55, thorough=900), max_runs=dict(quick=50_000, thorough=2_000_000),
    rule=('requests for the heavy script\'s history in flight while the blocks that take it across the limit are indexed (slow flushes, a pre-emption point between the two commits): every reply is the complete history of some height below the limit; the operator\'s `query` command (own limit 10 / 1000 / 5000) on the heavy script before clients ask; each evaluation = one simulated run of the real server, one of two motifs. Long thin chain (2030-2200 '
          'blocks): blockchain.block.headers(start, count, cp) over a grid around the chain start / end, the 2016 '
          'cap (2015, 2016, 2017, 3000, 10**6) and the checkpoint bounds, asked at quiescence and while the tip '
          'still moves: count == headers in hex <= min(requested, 2016), max == 2016, and (index at the tip for the '
          'whole request) count == what exists, bytes == the chain\'s headers, checkpoint proof folds, only an '
          'out-of-range checkpoint is refused. One heavy script: MAX_SEND in {default, 350000 (enforced minimum), '
          '350098, 400000}, a script whose confirmed history is grown by real blocks through limit-40/-3/-2, '
          'limit-1, limit, limit+1, limit+k (limit = MAX_SEND // 99) while one client is subscribed to it and an '
          'old and a fresh client query it twice each (cache miss then hit) and try to subscribe: below the limit '
          'the full history and true status; at/above always the "history too large" error; the subscriber never '
          'receives a non-null status other than the status of the full history. '
          'non-trivial = a headers grid or a heavy check ran; distinct = distinct interleaving signature'),
    assumptions=['the headers count/cap clause is a function of (start, count, cp, chain): simulation only adds '
                 'that it is asked while the tip moves (DESIGN.md section 9)',
                 'model bitcoind / clients / TCP / storage are simulator models'],
    required_probes=['c17.headers_capped', 'c17.headers_with_proof', 'c17.heavy.below', 'c17.heavy.at',
                     'c17.heavy.above'],
)
