from props.server import PROOFS as FAMILY  # noqa: F401
