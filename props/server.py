"""Full-server families with model Electrum clients:
  subs     (C07, organic C20)  subscribers converge on the true status and tip
  mempool  (C08, C09)          synchronised mempool view exact; tracker survives daemon races
  stale    (C10)               no stale answers at quiescence
  proofs   (C11)               merkle proofs verify against the current chain
DESIGN.md section 7."""
import hashlib
import itertools
import json
import os
import random

from props.common import Family, swarm_knobs, ntx_list
from props.reorg import ReorgDriver, ReorgFamily
from props.notif import NotifOracle
from sim.chaingen import (P2PKH_EXTRA, RefIndex, SCRIPTS, ALL_HASHX, hashx, scripthash_hex, hex_hash, dsha,
                          merkle_root, merkle_fold, unspendable, Tx)

SH = [scripthash_hex(s) for s in SCRIPTS]
SH_ALL = SH + [scripthash_hex(s) for s in P2PKH_EXTRA]
# scripts compared in mempool views: the unspendable forms are left out (the property does not say
# whether an unconfirmed output that will never be indexed counts)
MP_SCRIPTS = [i for i, s in enumerate(SCRIPTS) if s[:1] != b'\x6a' and s[:2] != b'\x00\x6a']


def run_sync(coro):
    """Drive a coroutine that never really awaits (MemPool's query methods)."""
    try:
        coro.send(None)
    except StopIteration as e:
        return e.value
    raise RuntimeError('coroutine suspended')


class RefMempool:
    """What the daemon's mempool and the confirmed UTXO set imply, per script hash."""

    def __init__(self, daemon, activation):
        self.txs = dict(daemon.mempool)
        chain = daemon.chain()
        self.ref = RefIndex(chain, activation)
        truth = self.ref.out_truth
        self.entries = {}       # txid -> (in_pairs, out_pairs, fee, has_ui)
        for txid, t in self.txs.items():
            ins = []
            for op in t.prevouts():
                if op[0] in self.txs:
                    v, s = self.txs[op[0]].outs[op[1]]
                    ins.append((hashx(s), v))
                else:
                    ins.append(truth[op])
            outs = [(hashx(s), v) for (v, s) in t.outs]
            fee = max(0, sum(v for _h, v in ins) - sum(v for _h, v in outs))
            has_ui = any(op[0] in self.txs for op in t.prevouts())
            self.entries[txid] = (ins, outs, fee, has_ui)

    def txids_of(self, hx):
        return {txid for txid, (ins, outs, _f, _u) in self.entries.items()
                if any(h == hx for h, _v in ins) or any(h == hx for h, _v in outs)}

    def balance_delta(self, hx):
        d = 0
        for ins, outs, _f, _u in self.entries.values():
            d -= sum(v for h, v in ins if h == hx)
            d += sum(v for h, v in outs if h == hx)
        return d

    def summaries(self, hx):
        return sorted((txid, self.entries[txid][2], self.entries[txid][3]) for txid in self.txids_of(hx))

    def utxos(self, hx):
        out = []
        for txid in self.txids_of(hx):
            for pos, (h, v) in enumerate(self.entries[txid][1]):
                if h == hx:
                    out.append((txid, pos, v))
        return sorted(out)

    def spends_bounds(self, hx):
        """(lower, upper): actual unconfirmed spends of outputs paying hx; all prevouts of mempool
        txs touching hx."""
        lower, upper = set(), set()
        for txid in self.txids_of(hx):
            upper.update(self.txs[txid].prevouts())
        for txid, t in self.txs.items():
            for op, (h, _v) in zip(t.prevouts(), self.entries[txid][0]):
                if h == hx:
                    lower.add(op)
        return lower, upper

    def statuses(self, hx):
        """All protocol statuses the docs allow: confirmed part ordered, mempool part in any
        order.  Returns a set of hex strings (or {None}); None when too many permutations."""
        conf = ''.join(f'{hex_hash(t)}:{h:d}:' for t, h in self.ref.history.get(hx, []))
        mp = [f'{hex_hash(txid)}:{-int(self.entries[txid][3]):d}:' for txid in sorted(self.txids_of(hx))]
        if not conf and not mp:
            return {None}
        if len(mp) > 7:
            return None
        return {hashlib.sha256((conf + ''.join(p)).encode()).hexdigest()
                for p in itertools.permutations(mp)}


class ClientDriver(ReorgDriver):
    FAMILY_PROP = dict(ReorgDriver.FAMILY_PROP, subs='C07', mempool='C08', stale='C10', proofs='C11',
                       hostile='C16', limits='C17', peers='C19')

    def setup(self):
        super().setup()
        w = self.w
        self.notif = NotifOracle()
        self.notif_incarnation = 0
        w.notif_monitor = self.on_notif_event
        w.net.on_server_write = self.on_server_write
        self.mp_prev_view = None
        self.mp_list_version = None
        self.mp_list_at = 0
        self.mp_list_index_ok = False
        self.last_sync_refresh = None       # daemon.version of the last synchronised refresh seen
        self.cl = []
        self.proof_log = []
        self.seen_headers = set()
        d = w.daemon
        orig_rpc = d.rpc

        def rpc(method, params):
            if method == 'getrawmempool':
                self.mp_list_version = d.version
                self.mp_list_height = d.height
                self.mp_list_at = w.sim.steps
                srv = w.server
                # "the index was at that height": flushed, nothing of a flush still in flight
                self.mp_list_index_ok = bool(
                    srv is not None and srv.db is not None and srv.db.state is not None
                    and srv.db.state.height == d.height and srv.db.state.tip == d.tip.hash
                    and not any(x.tag.endswith(('flush_dbs', 'advance_block', 'backup_block'))
                                for x in w.sim.workers))
            return orig_rpc(method, params)
        d.rpc = rpc
        self.mp_list_height = None
        self.daemon_shrunk = False
        orig_set_tip = d.set_tip

        def set_tip(block):
            if block is not None and d.tip is not None and block.height < d.height:
                self.daemon_shrunk = True
            return orig_set_tip(block)
        d.set_tip = set_tip

    def violate(self, prop, clause, message, keys=()):
        super().violate(prop, clause, message, keys)
        if prop == 'C08' and clause.startswith(('view.', 'liveness.')) and self.case.get('target') == 'C09':
            # C09: "... and reaches the exact view of C08 on the next quiet refresh"
            super().violate('C09', 'convergence.' + clause, message, keys)

    def teardown(self):
        super().teardown()
        p = self.res.probes
        fam = self.case.get('family')
        if fam == 'subs':
            self.res.nontrivial = bool(p.get('c07.status_checked') and p.get('settles', 0) >= 2)
        elif fam == 'mempool':
            self.res.nontrivial = bool(p.get('refresh.synchronised.nonempty'))
        elif fam == 'stale':
            self.res.nontrivial = bool(p.get('c10.sweeps'))
        elif fam == 'proofs':
            self.res.nontrivial = bool(p.get('c11.sweeps'))

    def _on_server_start(self, w):
        self.notif = NotifOracle()
        self.mp_prev_view = None
        self.last_sync_refresh = None

    def _on_server_end(self, w):
        super()._on_server_end(w)
        self.check_notif_oracle(final=False)

    # ---- monitors -------------------------------------------------------------------------
    def on_notif_event(self, kind, height, touched):
        self.notif.event(kind, height, touched)
        self.mark('n', kind, height, len(touched))
        self.w.sim.log('N', kind, height, sorted(t.hex()[:6] if isinstance(t, bytes) else t for t in touched)[:8])
        if kind in ('block', 'start', 'notify'):
            for hh in range(max(0, height - 12), height + 1):
                self.seen_headers.add((hh, self.disk_header(hh).hex()))
        if kind == 'mempool':
            self.on_mempool_refresh(height, touched)

    def disk_header(self, h):
        from sim.seams import read_logical
        return read_logical(self.w.fs, '/db/meta/headers', 2, self.w.k.get('file_size') or 16000000, h * 80, 80)

    def check_notif_oracle(self, final):
        for clause, msg in self.notif.errors[:1]:
            self.violate('C20', 'organic.' + clause, msg)
        self.notif.errors = []
        if final and self.notif.agreed():
            miss = self.notif.missing()
            if miss:
                x = miss[0]
                self.violate('C20', 'organic.dropped', f'hashX {x.hex() if isinstance(x, bytes) else x} '
                             f'handed over by {self.notif.handed_src[x]} is in no notification at '
                             f'quiescence; last calls {[(c[0], c[1], len(c[2])) for c in self.notif.calls[-10:]]}',
                             [x])

    def mempool_view(self):
        mp = self.w.server.mempool
        return {hx: set(txs) for hx, txs in mp.hashXs.items() if txs}

    def on_mempool_refresh(self, height, touched):
        """Called at the instant MemPool hands its touched set over (on_mempool)."""
        w = self.w
        srv = w.server
        mp = srv.mempool
        d = w.daemon
        # C20, system side: "a mempool refresh at h" is a refresh whose listing was taken while the daemon was
        # at height h (heights only ever rose in this run, so the tracker's height re-check settles it)
        if self.mp_list_height is not None and height != self.mp_list_height and not self.daemon_shrunk:
            self.violate('C20', 'organic.refresh_height_label', f'on_mempool(.., {height}) hands over a refresh '
                         f'whose mempool listing was taken while the daemon was at height {self.mp_list_height}')
        self.probe('c20.refresh_labels_checked')
        # C09: structural invariants of the tracker, whatever raced
        self.check_mempool_invariants('refresh')
        # C08: touched completeness relative to the tracker's own previous view
        view = self.mempool_view()
        if self.mp_prev_view is not None:
            changed = {hx for hx in set(view) | set(self.mp_prev_view)
                       if view.get(hx, set()) != self.mp_prev_view.get(hx, set())}
            missing = [hx for hx in changed if hx not in touched]
            if missing:
                self.violate('C08', 'touched.incomplete', f'script hash {missing[0].hex()} gained or '
                             f'lost an unconfirmed transaction since the previous refresh but is not in '
                             f'the touched set ({len(touched)} touched)', missing[:1])
        self.mp_prev_view = view
        synced = (self.mp_list_version == d.version and d.height == height
                  and srv.db.state.height == height and srv.db.state.tip == d.tip.hash and self.mp_list_index_ok)
        if not synced:
            self.probe('refresh.unsynchronised')
            return
        self.probe('refresh.synchronised')
        self.last_sync_refresh = (d.version, self.mp_list_at)
        ref = RefMempool(d, w.k['activation'])
        if ref.txs:
            self.probe('refresh.synchronised.nonempty')
        got_ids = set(mp.txs)
        if got_ids != set(ref.txs):
            extra = [hex_hash(t)[:10] for t in got_ids - set(ref.txs)][:3]
            miss = [hex_hash(t)[:10] for t in set(ref.txs) - got_ids][:3]
            self.violate('C08', 'view.txset', f'synchronised refresh at height {height}: tracker holds '
                         f'{len(got_ids)} txs, daemon mempool {len(ref.txs)}; extra {extra} missing {miss}')
            return
        for i in MP_SCRIPTS:
            hx = ALL_HASHX[i]
            if run_sync(mp.balance_delta(hx)) != ref.balance_delta(hx):
                self.violate('C08', 'view.balance_delta', f'{hx.hex()}: '
                             f'{run_sync(mp.balance_delta(hx))} != {ref.balance_delta(hx)}', [hx])
            got = sorted((s.hash, s.fee, bool(s.has_unconfirmed_inputs))
                         for s in run_sync(mp.transaction_summaries(hx)))
            if got != ref.summaries(hx):
                self.violate('C08', 'view.summaries', f'{hx.hex()}: got '
                             f'{[(hex_hash(a)[:8], b, c) for a, b, c in got][:4]} exp '
                             f'{[(hex_hash(a)[:8], b, c) for a, b, c in ref.summaries(hx)][:4]}', [hx])
            got = sorted((u.tx_hash, u.tx_pos, u.value) for u in run_sync(mp.unordered_UTXOs(hx)))
            if got != ref.utxos(hx):
                self.violate('C08', 'view.utxos', f'{hx.hex()}: {len(got)} vs {len(ref.utxos(hx))}', [hx])
            lo, up = ref.spends_bounds(hx)
            ps = set((bytes(a), b) for a, b in run_sync(mp.potential_spends(hx)))
            if not (lo <= ps <= up):
                self.violate('C08', 'view.potential_spends', f'{hx.hex()}: result has {len(ps)} '
                             f'prevouts; misses {len(lo - ps)} actual spends, {len(ps - up)} foreign', [hx])

    def check_mempool_invariants(self, where):
        srv = self.w.server
        if srv is None or srv.mempool is None:
            return
        mp = srv.mempool
        known = self.w.daemon.known_txs
        inverse = {}
        for txid, tx in mp.txs.items():
            src = known.get(txid)
            if tx.in_pairs is None:
                self.violate('C09', 'tracker.unresolved_tx', f'{hex_hash(txid)[:10]} recorded without '
                             'input values')
                continue
            if src is not None:
                exp_in = []
                for op in src.prevouts():
                    ptx = known.get(op[0])
                    v, s = ptx.outs[op[1]]
                    exp_in.append((hashx(s), v))
                if list(tx.in_pairs) != exp_in:
                    self.violate('C09', 'tracker.wrong_input', f'tx {hex_hash(txid)[:10]} recorded with '
                                 f'in_pairs {[(h.hex()[:6], v) for h, v in tx.in_pairs][:3]} but its '
                                 f'prevouts are {[(h.hex()[:6], v) for h, v in exp_in][:3]} ({where})')
                exp_fee = max(0, sum(v for _h, v in exp_in) - sum(v for v, _s in src.outs))
                if tx.fee != exp_fee:
                    self.violate('C09', 'tracker.wrong_fee', f'tx {hex_hash(txid)[:10]} fee {tx.fee} != '
                                 f'{exp_fee}')
            for h, _v in itertools.chain(tx.in_pairs, tx.out_pairs):
                inverse.setdefault(h, set()).add(txid)
        actual = {h: set(s) for h, s in mp.hashXs.items() if s}
        if actual != inverse:
            bad = [h for h in set(actual) | set(inverse) if actual.get(h) != inverse.get(h)][:1]
            self.violate('C09', 'tracker.inverse', f'hashXs is not the inverse of txs for '
                         f'{bad[0].hex() if bad and bad[0] else bad}: '
                         f'{sorted(hex_hash(t)[:8] for t in actual.get(bad[0], ()))} vs '
                         f'{sorted(hex_hash(t)[:8] for t in inverse.get(bad[0], ()))} ({where})', bad)

    def on_server_write(self, conn, data):
        """C07 monitor: a header notification / subscribe reply is never written before that block
        is queryable."""
        if b'"height"' not in data or b'"hex"' not in data:
            return
        srv = self.w.server
        if srv is None or srv.db is None or srv.db.state is None:
            return
        for line in data.split(b'\n'):
            if not line.strip():
                continue
            try:
                msg = json.loads(line)
            except ValueError:
                continue
            res = None
            if isinstance(msg, dict):
                if msg.get('method') == 'blockchain.headers.subscribe':
                    res = msg['params'][0]
                elif isinstance(msg.get('result'), dict) and 'hex' in msg['result'] and \
                        'height' in msg['result'] and len(msg['result']) == 2:
                    res = msg['result']
            if not res:
                continue
            h = res['height']
            self.probe('header_msgs')
            # "never sent before that block is queryable": the DB must have reached that height and
            # the header must be that of a block it has had on disk at that height (a reply from the
            # header-subscription cache may lag behind a reorganisation; the tip oracle at
            # quiescence judges that)
            on_disk = self.disk_header(h).hex()
            if srv.db.state.height >= h:
                self.seen_headers.add((h, on_disk))
            if (h, res['hex']) not in self.seen_headers:
                self.violate('C07', 'header.before_queryable', f'header message for height {h} written '
                             f'but the DB (now at height {srv.db.state.height}) has never had that header '
                             'at that height on disk')

    # ---- clients ------------------------------------------------------------------------------
    def client(self, i):
        while len(self.cl) <= i:
            self.cl.append(self.w.new_client(f'c{len(self.cl)}', addr=(f'8.8.{len(self.cl)}.4', None)))
            self.cl[-1].on_any_reply = self.any_reply
        return self.cl[i]

    def any_reply(self, c, req, rec):
        """C16, whatever the moment: no request - here: well-formed ones racing with blocks, reorganisations
        and mempool changes - is answered with an internal error."""
        err = rec.get('error')
        if isinstance(err, dict) and err.get('code') == -32603:
            self.probe('c16.internal_error_replies')
            self.violate('C16', 'internal_error.race', f'{req["method"] if req else "?"} '
                         f'{str(req["params"])[:80] if req else ""} was answered with an internal error while the '
                         f'chain / mempool was changing: {str(err)[:120]}')

    def ensure_connected(self, c):
        if c.connected and c.conn.alive:
            return True
        if not c.connect():
            return False
        # protocol version per client (per-run knob): 1.4 / 1.4.1 sessions have no unsubscribe method, a
        # session that never sends server.version runs with the handlers of the minimum version
        protos = self.w.k.get('protos')
        ver = '1.4.2'
        if protos and c in self.cl:
            ver = protos[self.cl.index(c) % len(protos)]
        if ver is not None:
            c.send('server.version', ['sim', ver])
        return True

    def op_c_connect(self, op):
        self._when(op, lambda: self.ensure_connected(self.client(op['c'])))

    def op_c_disconnect(self, op):
        self._when(op, lambda: self.client(op['c']).disconnect())

    def op_c_disconnect_all(self, op):
        """Every client goes away - also the fresh / admin ones of earlier phases: the server has no session."""
        def go():
            for c in list(self.cl) + list(self.clients.values()):
                if c is self.clients.get('admin') and getattr(self, 'admin_pending', 0):
                    continue        # an admin request is still in flight: the operator stays
                if c.connected:
                    c.disconnect()
            self.probe('c10.nobody_connected')
        self._when(op, go)

    def op_c_hsub(self, op):
        def go():
            c = self.client(op['c'])
            if self.ensure_connected(c):
                c.send('blockchain.headers.subscribe')
        self._when(op, go)

    def op_c_sub(self, op):
        def go():
            c = self.client(op['c'])
            if self.ensure_connected(c):
                c.send('blockchain.scripthash.subscribe', [SH_ALL[op['s'] % len(SH_ALL)]])
        self._when(op, go)

    def op_c_sub_tx(self, op):
        """Subscribe to the script of an output of the mempool transaction added last."""
        def go():
            tx = getattr(self, 'last_mp_tx', None)
            c = self.client(op['c'])
            if tx is None or not self.ensure_connected(c):
                return
            v, scr = tx.outs[op.get('o', 0) % len(tx.outs)]
            c.send('blockchain.scripthash.subscribe', [scripthash_hex(scr)])
            self.probe('c07.sub_to_mempool_output')
        self._when(op, go)

    def op_c_unsub(self, op):
        def go():
            c = self.client(op['c'])
            if c.connected and c.subscribed:
                sh = sorted(c.subscribed)[op['s'] % len(c.subscribed)]
                c.send('blockchain.scripthash.unsubscribe', [sh])
        self._when(op, go)

    def op_c_query(self, op):
        state = dict(i=0)

        def go():
            c = self.client(op['c'])
            if self.ensure_connected(c):
                if 'rep' in op and 'back' in op:
                    # a storm keeps asking about the height it started with (the daemon's height moves), and
                    # about the transactions of every block the daemon has ever had there in turn
                    if 'h' not in state:
                        state['h'] = max(0, self.w.daemon.height - op['back'])
                        state['first'] = self.blocks_at(state['h']).index(self.w.daemon.chain()[state['h']])
                    # op['alt'] == 'first': only transactions of the block that was there when the storm began
                    # (once it is replaced these requests are refused before they reach any cache)
                    self.send_query(c, dict(op, hfix=state['h'],
                                            alt=state['first'] if op.get('alt') == 'first' else state['i']))
                    state['i'] += 1
                else:
                    self.send_query(c, op)
        self._when(op, go)
        # a storm: the same request repeated at short intervals, so that one of them lands inside a narrow
        # window (between a block being advanced / backed up in memory and its flush)
        for i in range(1, op.get('rep', 1)):
            self._bg(op.get('at', 0.0) + i * op.get('every', 0.25), go)

    def send_query(self, c, op):
        m = op['m']
        d = self.w.daemon
        if m in ('get_history', 'get_balance', 'listunspent', 'get_mempool'):
            c.send('blockchain.scripthash.' + m, [SH_ALL[op['s'] % len(SH_ALL)]])
        elif m == 'id_from_pos':
            h = op['hfix'] if 'hfix' in op else \
                max(0, d.height - op['back']) if 'back' in op else op['h'] % (d.height + 3)
            pos, merkle = op.get('pos', 0), bool(op.get('merkle'))
            c.send('blockchain.transaction.id_from_pos', [h, pos, merkle],
                   cb=(lambda rec: self.judge_inflight_tx_proof(rec, h, pos, None)) if merkle else None)
        elif m == 'get_merkle':
            chain = d.chain()
            h = max(0, d.height - op['back']) if 'back' in op else op['h'] % len(chain)
            txs = chain[h].txs
            if 'hfix' in op:
                h = op['hfix']
                alts = self.blocks_at(h)
                txs = alts[op['alt'] % len(alts)].txs
            t = txs[op.get('pos', 0) % len(txs)]
            c.send('blockchain.transaction.get_merkle', [hex_hash(t.hash), h],
                   cb=lambda rec: self.judge_inflight_tx_proof(rec, h, None, t.hash))
        elif m == 'get_tsc_merkle':
            chain = d.chain()
            h = max(0, d.height - op['back']) if 'back' in op else op['h'] % len(chain)
            txs = chain[h].txs
            if 'hfix' in op:
                h = op['hfix']
                alts = self.blocks_at(h)
                txs = alts[op['alt'] % len(alts)].txs
            t = txs[op.get('pos', 0) % len(txs)]
            tt = ['block_hash', 'block_header', 'merkle_root'][op.get('tt', 0) % 3]
            c.send('blockchain.transaction.get_tsc_merkle', [hex_hash(t.hash), h, 'txid', tt],
                   cb=lambda rec: self.judge_inflight_tsc_proof(rec, h, t.hash, tt))
        elif m == 'header':
            cp = op.get('cp', 0)
            cpv = (cp % (d.height + 2) or d.height) if cp else 0     # mostly a valid checkpoint, sometimes tip+1
            h = op['h'] % (cpv + 1) if cpv and op['h'] % 7 else op['h'] % (d.height + 3)
            if 'hfix' in op:
                # a storm: the checkpoint stays at the height that was the tip when the storm began
                cpv = op['hfix']
                h = max(0, cpv - (op.get('alt', 0) + op.get('pos', 0)) % 3)
            c.send('blockchain.block.header', [h, cpv] if cp else [h],
                   cb=(lambda rec: self.judge_inflight_header_proof(rec, h, cpv)) if cpv else None)

    # -- C11: a proof handed out while the chain is changing must verify against a block / a chain the
    #    daemon has served at that height (a version the server may have held during the request) - never
    #    a mixture; afterwards (quiescence sweep) only the current chain qualifies
    def blocks_at(self, h):
        return [b for b in self.w.tree.blocks.values() if b.height == h]

    def judge_inflight_tx_proof(self, rec, h, pos, txid):
        if 'result' not in rec or rec.get('closed'):
            return
        res = rec['result']
        if pos is None:
            pos = res.get('pos')
            branch = res.get('merkle')
        else:
            branch = res.get('merkle')
            txid = bytes.fromhex(res['tx_hash'])[::-1]
        self.probe('c11.inflight_tx_proofs')
        try:
            root = merkle_fold(txid, [bytes.fromhex(x)[::-1] for x in branch], pos)
        except (ValueError, TypeError):
            root = None
        for b in self.blocks_at(h):
            if pos < len(b.txs) and b.txs[pos].hash == txid and b.header[36:68] == root:
                return
        self.violate('C11', 'inflight.tx_proof', f'proof for height {h} pos {pos} returned while the chain may '
                     'have been changing folds to no merkle root of any block ever served at that height with that '
                     'transaction at that position')

    def judge_inflight_tsc_proof(self, rec, h, txid, tt):
        if 'result' not in rec or rec.get('closed'):
            return
        res = rec['result']
        self.probe('c11.inflight_tsc_proofs')
        try:
            cur, idx = txid, res['index']
            for node in res['nodes']:
                sib = cur if node == '*' else bytes.fromhex(node)[::-1]
                if node == '*' and idx & 1:
                    raise ValueError('duplicate marker on a right-hand node')
                cur = dsha(sib + cur) if idx & 1 else dsha(cur + sib)
                idx >>= 1
        except (ValueError, TypeError, KeyError):
            cur = None
        for b in self.blocks_at(h):
            pos = res.get('index')
            if isinstance(pos, int) and pos < len(b.txs) and b.txs[pos].hash == txid and \
                    b.header[36:68] == cur and res.get('txOrId') == hex_hash(txid) and res.get('target') == dict(
                        block_hash=b.hex, block_header=b.header.hex(),
                        merkle_root=hex_hash(b.header[36:68]))[tt]:
                return
        self.violate('C11', 'inflight.tsc_proof', f'TSC proof for height {h} (target {tt}) returned while the '
                     'chain may have been changing matches no block ever served at that height')

    def judge_inflight_header_proof(self, rec, h, cp):
        if 'result' not in rec or rec.get('closed'):
            return
        res = rec['result']
        self.probe('c11.inflight_header_proofs')
        try:
            root = bytes.fromhex(res['root'])[::-1]
            branch = [bytes.fromhex(x)[::-1] for x in res['branch']]
            header = bytes.fromhex(res['header'])
        except (ValueError, TypeError, KeyError):
            self.violate('C11', 'inflight.header_proof', f'malformed header proof reply for ({h},{cp})')
            return
        for tipb in self.blocks_at(cp):
            br = tipb.branch()
            if h < len(br) and br[h].header == header and merkle_root([b.hash for b in br]) == root and \
                    merkle_fold(br[h].hash, branch, h) == root:
                return
        self.violate('C11', 'inflight.header_proof', f'header proof for ({h},{cp}) returned while the chain may have '
                     'been changing matches no chain the daemon ever served up to that checkpoint (header, root and '
                     'branch must belong to one version)')

    def _when(self, op, fn):
        if op.get('at'):
            self._bg(op['at'], fn)
        else:
            fn()

    # ---- mempool operations ---------------------------------------------------------------------
    def op_mp_add(self, op):
        def go():
            w = self.w
            rng = self.rng_for(op)
            for _ in range(op.get('n', 1)):
                avail = w.daemon.mempool_avail()
                if not avail:
                    return
                if op.get('recent'):
                    # spend outputs created by the tip block: a reorg un-confirms the parent
                    sub = {k: v for k, v in avail.items() if v[2] == w.daemon.height} or avail
                elif op.get('chain') and w.daemon.mempool and rng.random() < op['chain']:
                    sub = {k: v for k, v in avail.items() if v[2] == -1} or avail
                else:
                    sub = avail
                last = getattr(self, 'last_mp_tx', None)
                if op.get('linear') and last is not None and last.hash in w.daemon.mempool:
                    # each transaction spends (only) outputs of the one before: a chain as deep as it is long
                    sub = {k: v for k, v in avail.items() if k[0] == last.hash} or sub
                tx = w.gen.make_tx(rng, dict(sub))
                if w.daemon.add_mempool_tx(tx):
                    self.probe('mp.added')
                    self.last_mp_tx = tx
        self._when(op, go)

    def op_mp_evict(self, op):
        def go():
            mp = self.w.daemon.mempool
            if mp:
                txid = list(mp)[op.get('k', 0) % len(mp)]
                self.w.daemon.evict(txid)
                self.probe('mp.evicted')
        self._when(op, go)

    def op_mp_flicker(self, op):
        """A mempool tx is evicted and the very same tx re-accepted a moment later (re-broadcast)."""
        def go():
            d = self.w.daemon
            mp = d.mempool
            if not mp:
                return
            txid = list(mp)[op.get('k', 0) % len(mp)]
            gone = [t for t in mp.values()]
            d.evict(txid)
            gone = [t for t in gone if t.hash not in d.mempool]
            self.probe('mp.flicker')

            def back():
                for t in gone:
                    d.add_mempool_tx(t)
            self._bg(op.get('gap', 0.5), back)
        self._when(op, go)

    def op_c_broadcast(self, op):
        def go():
            w = self.w
            c = self.client(op['c'])
            if not self.ensure_connected(c):
                return
            avail = w.daemon.mempool_avail()
            if not avail:
                return
            tx = w.gen.make_tx(self.rng_for(op), dict(avail))
            c.send('blockchain.transaction.broadcast', [tx.raw.hex()])
            self.probe('mp.broadcast')
        self._when(op, go)

    # ---- quiescence ---------------------------------------------------------------------------------
    def settle(self, limit=None):
        """Quiescent: index at the daemon's height, mempool refreshed at that height after the last
        daemon change, notifications delivered."""
        w = self.w
        if self.poker is not None:
            self.poker['on'] = False
            self.poker = None
        d = w.daemon
        for _ in range(6):
            # requests in flight may still change the daemon (broadcast) or the subscriptions
            w.run(lambda: self.pending_bg <= 0 and not any(c.connected and c.pending() for c in self.cl),
                  200.0)
            if not self.quiesce(limit):
                return False
            d.frozen = True
            # a synchronised refresh whose listing was taken after the index had caught up
            t0 = w.sim.steps

            def refreshed():
                ls = self.last_sync_refresh
                return ls is not None and ls[0] == d.version and ls[1] >= t0
            def reported():
                # the block processor has handed its current height to Notifications (after an intermediate
                # flush it may still be waiting for a slow or failing daemon call made before the tail began)
                # ... and no set handed over with a block report is still waiting for the next refresh at that height
                # (a report that arrives after the refresh of its height is delivered with the next one: deferred)
                return self.notif.last_block == d.height and not self.notif.block_pending
            r = w.run(lambda: refreshed() and w.caught_up() and reported(), 600.0)
            if r != 'pred':
                return False
            # let deferred notifications and network deliveries drain: two more refresh periods
            w.run(None, 16.0)
            if w.server is None:
                continue
            if refreshed() and w.caught_up() and reported() and self.pending_bg <= 0 and \
                    not any(c.connected and c.pending() for c in self.cl):
                return True
        return False

    def op_settle(self, op):
        ok = self.settle(op.get('limit'))
        prop = self.ATTRIBUTE_TO
        if not ok:
            self.violate(prop, 'liveness.quiescence', 'server did not become quiescent (caught up, '
                         'mempool refreshed at the daemon height) within the fault-free window: '
                         f'{self.w.why_not_caught_up()} exits {self.w.server_exits[-3:]}')
            return
        self.mark('settle', self.w.daemon.height, len(self.w.daemon.mempool))
        self.probe('settles')
        self.check_notif_oracle(final=True)
        fam = self.case['family']
        refmp = RefMempool(self.w.daemon, self.w.k['activation'])
        self.check_subscribers(refmp)
        if fam in ('stale', 'proofs'):
            self.check_answers(refmp, proofs=(fam == 'proofs'))
        self.check_mempool_invariants('settle')
        self.extra_settle_checks(refmp)
        self.resume_faults()
        self.w.daemon.frozen = False

    def extra_settle_checks(self, refmp):
        pass

    def check_subscribers(self, refmp):
        """C07 oracle at quiescence."""
        d = self.w.daemon
        tip = {'hex': d.tip.header.hex(), 'height': d.height}
        for c in self.cl:
            if not c.connected:
                continue
            if c.headers_subscribed:
                self.probe('c07.header_checked')
                if c.header is None or c.header[1] != tip:
                    got = c.header[1].get('height') if c.header else None
                    self.violate('C07', 'tip.stale', f'client {c.name} last header height {got}, current '
                                 f'tip is {d.height}')
            for sh in sorted(c.subscribed):
                hx = bytes.fromhex(sh)[::-1][:11]
                allowed = refmp.statuses(hx)
                if allowed is None:
                    self.probe('c07.too_many_permutations')
                    continue
                held = c.sub_status.get(sh)
                self.probe('c07.status_checked')
                if refmp.txids_of(hx):
                    self.probe('c07.status_with_mempool')
                if held is None or held[1] not in allowed:
                    self.violate('C07', 'status.stale', f'client {c.name} holds status '
                                 f'{held[1] if held else None} for script {sh[:10]} but the current chain and '
                                 f'mempool give {sorted(map(str, allowed))[:2]} (confirmed history '
                                 f'{len(refmp.ref.history.get(hx, []))} txs, mempool {len(refmp.txids_of(hx))})',
                                 [hx])

    # ---- C10 / C11 oracles: ask everything, old client and fresh client -----------------------------
    def ask(self, c, method, params, timeout=120.0):
        box = {}
        rid = c.send(method, params, cb=lambda rec: box.setdefault('r', rec))
        if rid is None:
            return None
        self.w.run(lambda: 'r' in box, timeout)
        return box.get('r')

    def check_answers(self, refmp, proofs=False):
        w = self.w
        d = w.daemon
        ref = refmp.ref
        prop = 'C11' if proofs else 'C10'
        fresh = w.new_client('fresh', addr=('8.9.9.9', None))
        olds = [c for c in self.cl if c.connected]
        clients = (olds[:1] + [fresh]) if olds else [fresh]
        if not self.ensure_connected(fresh):
            self.violate(prop, 'liveness.connect', 'a fresh client cannot connect at quiescence')
            return
        rng = random.Random(d.height * 977 + len(d.mempool))
        for c in clients:
            if not proofs:
                for i, sh in enumerate(SH):
                    hx = ALL_HASHX[i]
                    mp_ok = i in MP_SCRIPTS
                    # history
                    r = self.ask(c, 'blockchain.scripthash.get_history', [sh])
                    exp_conf = [dict(tx_hash=hex_hash(t), height=h) for t, h in ref.history.get(hx, [])]
                    exp_mp = sorted((hex_hash(t), -int(u), f) for t, f, u in refmp.summaries(hx))
                    if r is None or 'result' not in r:
                        self.violate('C10', 'get_history.error', f'{c.name} {sh[:10]}: {r}', [hx])
                    else:
                        got = r['result']
                        conf = [x for x in got if 'fee' not in x]
                        mpp = sorted((x['tx_hash'], x['height'], x['fee']) for x in got if 'fee' in x)
                        if conf != exp_conf:
                            # what the server reports to clients is what C02 is about, too
                            self.violate('C02', 'reported.get_history', f'{c.name} {sh[:10]}: confirmed part of '
                                         f'the reply has {len(conf)} entries, the chain implies {len(exp_conf)}',
                                         [hx])
                            self.violate('C10', 'get_history.confirmed', f'{c.name} {sh[:10]}: '
                                         f'{len(conf)} entries, expected {len(exp_conf)}; first diff at '
                                         f'{next((j for j, (a, b) in enumerate(zip(conf, exp_conf)) if a != b), min(len(conf), len(exp_conf)))}', [hx])
                        if mp_ok and mpp != exp_mp:
                            self.violate('C08', 'reported.get_history', f'{c.name} {sh[:10]}: unconfirmed part '
                                         f'{mpp[:3]}, the daemon mempool implies {exp_mp[:3]}', [hx])
                            self.violate('C10', 'get_history.mempool', f'{c.name} {sh[:10]}: {mpp[:3]} '
                                         f'vs {exp_mp[:3]}', [hx])
                    r = self.ask(c, 'blockchain.scripthash.get_balance', [sh])
                    exp = dict(confirmed=ref.balance(hx), unconfirmed=refmp.balance_delta(hx))
                    if r is None or 'result' not in r or r['result']['confirmed'] != exp['confirmed'] or \
                            (mp_ok and r['result'] != exp):
                        if r is not None and 'result' in r and r['result']['confirmed'] != exp['confirmed']:
                            self.violate('C01', 'reported.balance', f'{c.name} {sh[:10]}: confirmed balance '
                                         f'{r["result"]["confirmed"]}, the chain implies {exp["confirmed"]}', [hx])
                        if mp_ok and r is not None and 'result' in r and \
                                r['result'].get('unconfirmed') != exp['unconfirmed']:
                            self.violate('C08', 'reported.balance', f'{c.name} {sh[:10]}: unconfirmed balance '
                                         f'{r["result"].get("unconfirmed")}, the mempool implies '
                                         f'{exp["unconfirmed"]}', [hx])
                        self.violate('C10', 'get_balance', f'{c.name} {sh[:10]}: {r} expected {exp}', [hx])
                    r = self.ask(c, 'blockchain.scripthash.listunspent', [sh])
                    spent_by_mp = set()
                    for t in refmp.txs.values():
                        spent_by_mp.update(t.prevouts())
                    exp_conf = [dict(tx_hash=hex_hash(a), tx_pos=b, height=hh, value=v)
                                for (a, b, v, hh) in sorted(ref.utxos_of(hx), key=lambda u: (
                                    ref.utxos[(u[0], u[1])][3], u[1]))]
                    if r is None or 'result' not in r:
                        self.violate('C10', 'listunspent.error', f'{c.name} {sh[:10]}: {r}', [hx])
                    elif mp_ok:
                        got = r['result']
                        lo, up = refmp.spends_bounds(hx)
                        in_mp = lambda x: bytes.fromhex(x['tx_hash'])[::-1] in refmp.txs   # noqa: E731
                        conf = [x for x in got if not in_mp(x)]
                        # confirmed part in blockchain order; outputs actually spent by the mempool must
                        # be hidden, outputs that merely appear as prevouts of related txs may be
                        must = [x for x in exp_conf if (bytes.fromhex(x['tx_hash'])[::-1], x['tx_pos']) not in up]
                        may = [x for x in exp_conf if (bytes.fromhex(x['tx_hash'])[::-1], x['tx_pos']) not in lo]
                        if [x for x in conf if x not in may] or [x for x in must if x not in conf] or \
                                conf != [x for x in exp_conf if x in conf]:
                            self.violate('C01', 'reported.listunspent', f'{c.name} {sh[:10]}: {len(conf)} confirmed '
                                         f'entries; the chain and mempool imply between {len(must)} and '
                                         f'{len(may)} in chain order', [hx])
                            self.violate('C10', 'listunspent.confirmed', f'{c.name} {sh[:10]}: {len(conf)} '
                                         f'entries; expected between {len(must)} and {len(may)} in chain order',
                                         [hx])
                        mpu = sorted((x['tx_hash'], x['tx_pos'], x['value']) for x in got if in_mp(x))
                        exp_u = [(hex_hash(a), b, v) for a, b, v in refmp.utxos(hx)]
                        must_u = sorted(u for u in exp_u if (bytes.fromhex(u[0])[::-1], u[1]) not in up)
                        if [u for u in mpu if u not in exp_u] or [u for u in must_u if u not in mpu]:
                            self.violate('C08', 'reported.listunspent', f'{c.name} {sh[:10]}: unconfirmed '
                                         f'outputs {mpu[:3]}, the mempool implies {exp_u[:3]}', [hx])
                            self.violate('C10', 'listunspent.mempool', f'{c.name} {sh[:10]}: {mpu[:3]} vs '
                                         f'{exp_u[:3]}', [hx])
                    r = self.ask(c, 'blockchain.scripthash.get_mempool', [sh])
                    if mp_ok and (r is None or 'result' not in r or sorted(
                            (x['tx_hash'], x['height'], x['fee']) for x in r['result']) != exp_mp):
                        self.violate('C08', 'reported.get_mempool', f'{c.name} {sh[:10]}: {str(r)[:120]}, the '
                                     f'mempool implies {exp_mp[:3]}', [hx])
                        self.violate('C10', 'get_mempool', f'{c.name} {sh[:10]}: {r} vs {exp_mp[:3]}', [hx])
                self.probe('c10.script_sweeps')
            # by-height queries, 0 .. tip+2
            for h in range(d.height + 3):
                ids = ref.block_txids[h] if h <= d.height else None
                npos = len(ids) if ids else 1
                poss = list(range(npos)) if npos <= 6 else sorted({0, npos - 1, rng.randrange(npos),
                                                                   rng.randrange(npos)})
                for pos in poss + [npos]:
                    merkle = proofs
                    r = self.ask(c, 'blockchain.transaction.id_from_pos', [h, pos, merkle])
                    if ids is None or pos >= npos:
                        if r is None or 'error' not in r:
                            self.violate(prop, 'id_from_pos.beyond', f'height {h} pos {pos}: {str(r)[:100]}')
                        continue
                    if r is None or 'result' not in r:
                        self.violate(prop, 'id_from_pos.error', f'height {h} pos {pos}: {r}')
                        continue
                    if merkle:
                        res = r['result']
                        ok = res['tx_hash'] == hex_hash(ids[pos]) and merkle_fold(
                            ids[pos], [bytes.fromhex(x)[::-1] for x in res['merkle']], pos) == \
                            d.chain()[h].header[36:68] and \
                            len(res['merkle']) == (npos - 1).bit_length()
                        if not ok:
                            self.violate('C11', 'id_from_pos.proof', f'height {h} pos {pos}/{npos}: proof '
                                         'does not fold to the merkle root in the header')
                        self.probe('c11.tx_proofs')
                    elif r['result'] != hex_hash(ids[pos]):
                        self.violate('C10', 'id_from_pos', f'height {h} pos {pos}: {r["result"][:12]} '
                                     f'expected {hex_hash(ids[pos])[:12]}')
                if proofs and ids is not None:
                    for pos in poss[:3]:
                        r = self.ask(c, 'blockchain.transaction.get_merkle', [hex_hash(ids[pos]), h])
                        if r is None or 'result' not in r:
                            self.violate('C11', 'get_merkle.error', f'height {h} pos {pos}: {r}')
                            continue
                        res = r['result']
                        if res['pos'] != pos or res['block_height'] != h or merkle_fold(
                                ids[pos], [bytes.fromhex(x)[::-1] for x in res['merkle']], pos) != \
                                d.chain()[h].header[36:68]:
                            self.violate('C11', 'get_merkle.proof', f'height {h} pos {pos}: wrong proof')
                        self.probe('c11.tx_proofs')
                        self.check_tsc(c, h, pos, ids, rng)
            if proofs:
                self.check_header_proofs(c, rng)
        self.probe('c10.sweeps' if not proofs else 'c11.sweeps')
        fresh.disconnect()

    def check_tsc(self, c, h, pos, ids, rng):
        d = self.w.daemon
        tt = rng.choice(['block_hash', 'block_header', 'merkle_root'])
        r = self.ask(c, 'blockchain.transaction.get_tsc_merkle', [hex_hash(ids[pos]), h, 'txid', tt])
        if r is None or 'result' not in r:
            self.violate('C11', 'get_tsc_merkle.error', f'height {h} pos {pos}: {r}')
            return
        res = r['result']
        blk = d.chain()[h]
        exp_target = dict(block_hash=blk.hex, block_header=blk.header.hex(),
                          merkle_root=hex_hash(blk.header[36:68]))[tt]
        # "*" marks a duplicated node: the sibling equals the running hash
        cur, idx, ok = ids[pos], pos, True
        for node in res['nodes']:
            sib = cur if node == '*' else bytes.fromhex(node)[::-1]
            if node == '*' and not (idx & 1 == 0):
                ok = False
            cur = dsha(sib + cur) if idx & 1 else dsha(cur + sib)
            idx >>= 1
        if not ok or cur != blk.header[36:68] or res['index'] != pos or res['target'] != exp_target \
                or res['txOrId'] != hex_hash(ids[pos]):
            self.violate('C11', 'get_tsc_merkle.proof', f'height {h} pos {pos} target {tt}: wrong proof')
        self.probe('c11.tsc_proofs')

    def check_header_proofs(self, c, rng):
        d = self.w.daemon
        chain = d.chain()
        tip = d.height
        hashes = [b.hash for b in chain]
        pairs = [(h, cp) for cp in range(1, tip + 1) for h in range(cp + 1)]
        if len(pairs) > 40:
            pairs = rng.sample(pairs, 34) + [(tip, tip), (0, tip), (0, 1), (tip - 1, tip), (1, tip),
                                              (tip // 2, tip)]
        for h, cp in pairs:
            r = self.ask(c, 'blockchain.block.header', [h, cp])
            if r is None or 'result' not in r:
                self.violate('C11', 'header_proof.error', f'({h},{cp}) tip {tip}: {r}')
                continue
            res = r['result']
            root = merkle_root(hashes[:cp + 1])
            if res['header'] != chain[h].header.hex() or bytes.fromhex(res['root'])[::-1] != root or \
                    merkle_fold(hashes[h], [bytes.fromhex(x)[::-1] for x in res['branch']], h) != root:
                self.violate('C11', 'header_proof.wrong', f'({h},{cp}) tip {tip}: header proof does not '
                             'fold to the merkle root of the current block hashes up to the checkpoint')
            self.probe('c11.header_proofs')
        for h, cp in ((tip, tip + 1), (tip + 1, tip + 1), (3, 2) if tip >= 3 else (1, 0)):
            r = self.ask(c, 'blockchain.block.header', [h, cp])
            if cp and (r is None or 'error' not in r):
                self.violate('C11', 'header_proof.out_of_range', f'({h},{cp}) tip {tip} answered: {str(r)[:80]}')
        # block.headers with a checkpoint
        start, cnt = rng.randrange(0, tip + 1), rng.randint(1, 5)
        r = self.ask(c, 'blockchain.block.headers', [start, cnt, tip])
        if r is not None and 'result' in r and r['result']['count']:
            res = r['result']
            last = start + res['count'] - 1
            root = merkle_root(hashes[:tip + 1])
            if bytes.fromhex(res['root'])[::-1] != root or merkle_fold(
                    hashes[last], [bytes.fromhex(x)[::-1] for x in res['branch']], last) != root or \
                    res['hex'] != b''.join(b.header for b in chain[start:last + 1]).hex():
                self.violate('C11', 'headers_proof.wrong', f'start {start} count {cnt} cp {tip}')


class SubsFamily(ReorgFamily):
    name = 'subs'
    driver = ClientDriver
    fam = 'subs'

    def base(self, rng, tier):
        k = swarm_knobs(rng)
        k['preempt'] = rng.random() < 0.9
        n0 = rng.choice([6, 10, 16, 25])
        k['activation'] = rng.randint(1, n0 + 6)
        if k['chunk_size'] < 64:
            k['chunk_size'] = 64
        k['daemon_latency'] = rng.choice([(0.0005, 0.05), (0.0, 0.001), (0.01, 1.0), (0.0005, 6.0),
                                          (0.5, 9.0)])
        if rng.random() < 0.35:
            k['gen_weights'] = dict(wide_pool=True)     # little script overlap between transactions
        k['protos'] = [rng.choice(['1.4.2'] * 6 + ['1.4', '1.4.1', ['1.4', '1.4.2'], None]) for _ in range(4)]
        plan = [dict(op='mine', n=n0, ntx=ntx_list(rng, n0), seed=rng.getrandbits(32), keep=True),
                dict(op='start', keep=True),
                dict(op='poker', period=rng.choice([(0.05, 2.0), (0.5, 10.0), (2.0, 30.0)]),
                     p_full=rng.choice([0.5, 0.9])),
                dict(op='settle', keep=True)]
        return k, plan

    def pick_s(self, rng, k):
        if (k.get('gen_weights') or {}).get('wide_pool') and rng.random() < 0.7:
            return rng.randrange(len(SH), len(SH_ALL))
        return rng.randrange(8)

    def client_ops(self, rng, nclients, at_max, k=None):
        ops = []
        k = k or {}
        for _ in range(rng.randint(1, 5)):
            c = rng.randrange(nclients)
            at = round(rng.uniform(0, at_max), 3) if rng.random() < 0.7 else 0
            r = rng.random()
            if r < 0.5:
                ops.append(dict(op='c_sub', c=c, s=self.pick_s(rng, k), at=at))
            elif r < 0.65:
                ops.append(dict(op='c_hsub', c=c, at=at))
            elif r < 0.75:
                ops.append(dict(op='c_unsub', c=c, s=rng.randrange(8), at=at))
                if rng.random() < 0.3:
                    ops.append(dict(op='admin_query', s=rng.randrange(8), limit=rng.choice([1, 2, 5, 1000]), at=at))
            elif r < 0.82:
                ops.append(dict(op='c_disconnect', c=c, at=at))
            elif r < 0.9:
                ops.append(dict(op='c_broadcast', c=c, at=at, seed=rng.getrandbits(32)))
            else:
                ops.append(dict(op='c_query', c=c, m=rng.choice(['get_history', 'get_balance',
                                                                  'listunspent', 'get_mempool']),
                                s=self.pick_s(rng, k), at=at))
        return ops

    def chain_ops(self, rng, k, at_max):
        ops = []
        for _ in range(rng.randint(1, 4)):
            at = round(rng.uniform(0, at_max), 3) if rng.random() < 0.7 else 0
            r = rng.random()
            if r < 0.35:
                n = rng.randint(1, 3)
                ops.append(dict(op='mine', n=n, ntx=ntx_list(rng, n), at=at, seed=rng.getrandbits(32),
                                confirm=rng.choice([0.0, 0.5, 1.0])))
            elif r < 0.55:
                ops.append(dict(op='fork', depth=rng.choice([1, 1, 2, 3]), extra=1, ntx=ntx_list(rng, 3),
                                remine=rng.choice([0.0, 0.5, 1.0]), at=at, seed=rng.getrandbits(32)))
            elif r < 0.62:
                ops.append(dict(op='admin_reorg', n=rng.choice([1, 2]), at=at))
                if rng.random() < 0.5:
                    # ... preceded by the daemon moving to a competing branch of the same length: the reorganisation
                    # ends at the height it started from, with other blocks
                    d = ops[-1]['n']
                    ops[-1]['at'] = round(at + rng.uniform(0.3, 3.0), 3)
                    ops.insert(len(ops) - 1, dict(op='fork', depth=d, extra=0, ntx=ntx_list(rng, d),
                                                  remine=rng.choice([0.0, 0.5]), at=at, seed=rng.getrandbits(32)))
            elif r < 0.88:
                ops.append(dict(op='mp_add', n=rng.randint(1, 4), chain=rng.choice([0.0, 0.5, 0.9]),
                                at=at, seed=rng.getrandbits(32)))
            elif r < 0.94:
                ops.append(dict(op='mp_flicker', k=rng.randrange(8), at=at, gap=round(rng.uniform(0.0, 3.0), 3)))
            else:
                ops.append(dict(op='mp_evict', k=rng.randrange(8), at=at))
        if rng.random() < 0.15:
            ops.append(self.rpc_race(rng))
        return ops

    RPC_METHODS = ['getrawmempool', 'getrawmempool', 'getrawmempool', 'getblockcount', 'getblockcount',
                   'getrawtransaction', 'getblockhash', 'rest']

    def rpc_race(self, rng):
        """A daemon-side change placed between two daemon calls of one server operation, optionally
        followed by a slow round trip."""
        then = []
        for _ in range(rng.randint(1, 2)):
            r = rng.random()
            if r < 0.45:
                then.append(dict(op='mine', n=1, ntx=[rng.randint(0, 4)], seed=rng.getrandbits(32),
                                 confirm=rng.choice(['parents', 'parents', 0.5, 1.0, 0.0])))
            elif r < 0.6:
                then.append(dict(op='fork', depth=1, extra=1, ntx=ntx_list(rng, 2),
                                 remine=rng.choice([0.0, 0.5, 1.0]), seed=rng.getrandbits(32)))
            elif r < 0.8:
                then.append(dict(op='mp_add', n=rng.randint(1, 3), chain=rng.choice([0.0, 0.9]),
                                 seed=rng.getrandbits(32)))
            else:
                then.append(dict(op='mp_evict', k=rng.randrange(8)))
        if rng.random() < 0.6:
            then.append(dict(op='slow', method=rng.choice(self.RPC_METHODS),
                             delay=rng.choice([2.0, 6.0, 12.0, 25.0])))
        return dict(op='on_rpc', method=rng.choice(self.RPC_METHODS), skip=rng.randrange(3), then=then)

    # (VERIF_NO_CHILD_MOTIF=1 switches the motif off)
    CHILD_MOTIF = os.environ.get('VERIF_NO_CHILD_MOTIF') != '1'

    def child_across_same_height_reorg(self, rng, k, plan):
        """motif: a new unconfirmed child of a transaction of the tip block whose raw-transaction fetch is slow; while
        it is under way the daemon moves to a competing tip of the same height that contains the same transactions
        and the operator's reorg makes the server follow, the download of the competing block being slow too: the
        tracker looks the parent output up after the tip was undone and before its replacement is indexed - and the
        height is the same afterwards."""
        k['orphans_return'] = True
        a = rng.choice([6.0, 10.0, 15.0])
        b = rng.choice([15.0, 25.0, 40.0])
        t1 = round(rng.uniform(0.5, 4.0), 2)
        plan.append(dict(op='mine', n=1, ntx=[rng.randint(3, 7)], seed=rng.getrandbits(32)))
        plan.append(dict(op='settle'))
        plan.append(dict(op='slow', method='getrawtransaction', delay=a))
        plan.append(dict(op='mp_add', n=1, recent=True, seed=rng.getrandbits(32)))
        plan.append(dict(op='fork', depth=1, extra=0, ntx=[0], remine=1.0, at=t1, seed=rng.getrandbits(32)))
        plan.append(dict(op='slow', method='rest', delay=b))
        plan.append(dict(op='admin_reorg', n=1, at=round(t1 + rng.uniform(0.3, 1.5), 2)))
        plan.append(dict(op='wait', dt=a + b + 10.0))
        plan.append(dict(op='settle'))

    def gen(self, rng, tier, prop):
        k, plan = self.base(rng, tier)
        if rng.random() < 0.35:
            # the history reads behind status computations are slow - those of notifications, of subscribe
            # requests, or all - and tend to come back right after a block-processor job has completed
            k['stall_boost'] = ('read_history', rng.choice([0.4, 0.8]),
                                rng.choice(['ElectrumX.notify', 'RPCSession', '']),
                                rng.choice(['release', 'timed']))
            if rng.random() < 0.5:
                k['stall_p'] = 0.0
        nclients = rng.randint(1, 3)
        for c in range(nclients):
            plan.append(dict(op='c_hsub', c=c) if rng.random() < 0.6 else dict(op='c_connect', c=c))
            for _ in range(rng.randint(1, 4)):
                plan.append(dict(op='c_sub', c=c, s=self.pick_s(rng, k)))
        for _ in range(rng.randint(1, 3)):
            at_max = rng.choice([2.0, 8.0, 20.0])
            if rng.random() < 0.25:
                # motif: an unconfirmed child of a transaction of the tip block, a subscriber of the
                # child's output script, then the tip block is orphaned (parent back in the mempool)
                k['orphans_return'] = True
                plan.append(dict(op='mine', n=1, ntx=[rng.randint(2, 6)], seed=rng.getrandbits(32)))
                plan.append(dict(op='settle'))
                plan.append(dict(op='mp_add', n=1, recent=True, seed=rng.getrandbits(32)))
                plan.append(dict(op='c_sub_tx', c=rng.randrange(nclients), o=rng.randrange(4)))
                if rng.random() < 0.5:
                    plan.append(dict(op='settle'))
                plan.append(dict(op='fork', depth=1, extra=1, ntx=[rng.randint(0, 3), 2], remine=0.0,
                                 at=round(rng.uniform(0, 3), 3), seed=rng.getrandbits(32)))
                plan.append(dict(op='settle'))
                continue
            if rng.random() < 0.12:
                # motif: blocks that touch no script hash at all (nothing but a coinbase paying a data carrier),
                # alone and followed by mempool arrivals: tip and later statuses must still reach the subscribers
                for _ in range(rng.randint(1, 3)):
                    plan.append(dict(op='mine', n=rng.randint(1, 2), burn=True, seed=rng.getrandbits(32),
                                     at=round(rng.uniform(0.0, 6.0), 2)))
                    if rng.random() < 0.5:
                        plan.append(dict(op='mp_add', n=rng.randint(1, 3), chain=0.0, seed=rng.getrandbits(32),
                                         at=round(rng.uniform(0.0, 12.0), 2)))
                    plan.append(dict(op='wait', dt=rng.choice([8.0, 20.0])))
                plan.append(dict(op='settle'))
                continue
            if rng.random() < 0.12:
                # motif: every client leaves, the chain and the mempool move while the server has no session,
                # clients come back and subscribe again
                plan.append(dict(op='c_disconnect_all'))
                plan.append(dict(op='wait', dt=rng.choice([0.5, 2.0])))
                plan.extend(self.chain_ops(rng, k, 3.0))
                plan.append(dict(op='wait', dt=rng.choice([15.0, 30.0])))
                for c in range(nclients):
                    plan.append(dict(op='c_hsub', c=c))
                    for _ in range(rng.randint(1, 3)):
                        plan.append(dict(op='c_sub', c=c, s=self.pick_s(rng, k)))
                plan.append(dict(op='settle'))
                continue
            if rng.random() < 0.15:
                # motif: the header read at the start of a notification round is slow, and a client that was not
                # connected before connects and subscribes while it is under way
                k['stall_boost'] = ('read_headers', rng.choice([0.6, 0.9]), rng.choice(['MemPool', 'BlockProcessor', '']),
                                    'timed')
                k['stall_p'] = 0.0
                k['preempt'] = True
                tq = round(rng.uniform(0.2, 2.0), 2)
                n = rng.randint(1, 2)
                plan.append(dict(op='mine', n=n, ntx=[rng.randint(2, 7) for _ in range(n)], at=tq,
                                 seed=rng.getrandbits(32), confirm=rng.choice([0.0, 1.0])))
                for j in range(rng.randint(1, 3)):
                    cn = nclients + j
                    t0 = round(tq + rng.uniform(0.2, 14.0), 2)
                    plan.append(dict(op='c_hsub', c=cn, at=t0))
                    for _ in range(rng.randint(1, 3)):
                        plan.append(dict(op='c_sub', c=cn, s=self.pick_s(rng, k), at=round(t0 + rng.uniform(0, 1.0), 2)))
                nclients += 3
                plan.append(dict(op='wait', dt=rng.choice([20.0, 40.0])))
                plan.append(dict(op='settle'))
                continue
            if rng.random() < 0.08 and self.CHILD_MOTIF:
                self.child_across_same_height_reorg(rng, k, plan)
                continue
            if rng.random() < 0.12:
                # motif: a new block, the header read at the start of its notification round - driven by the mempool
                # task - is slow, and while it is parked the daemon moves to a competing block of the same height and
                # the operator's reorg makes the server follow: the round resumes with the header of the orphaned block
                # after the reorganisation (which ends at the height it started from) has been signalled
                k['stall_boost'] = ('read_headers', rng.choice([0.6, 0.9]), rng.choice(['MemPool', 'MemPool', '']), 'timed')
                k['stall_p'] = 0.0
                k['preempt'] = True
                k['stall_max'] = rng.choice([12.0, 12.0, 30.0])
                tq = round(rng.uniform(0.2, 2.0), 2)
                plan.append(dict(op='mine', n=1, ntx=[rng.randint(1, 5)], at=tq, seed=rng.getrandbits(32),
                                 confirm=rng.choice([0.0, 1.0])))
                tf = round(tq + rng.uniform(1.0, 14.0), 2)
                plan.append(dict(op='fork', depth=1, extra=0, ntx=[rng.randint(1, 5)], remine=rng.choice([0.0, 0.5]), at=tf,
                                 seed=rng.getrandbits(32)))
                plan.append(dict(op='admin_reorg', n=1, at=round(tf + rng.uniform(0.2, 3.0), 2)))
                if rng.random() < 0.5:
                    plan.append(dict(op='mp_add', n=rng.randint(1, 2), chain=0.0, seed=rng.getrandbits(32),
                                     at=round(tq + rng.uniform(0.0, 10.0), 2)))
                plan.append(dict(op='wait', dt=rng.choice([25.0, 45.0])))
                plan.append(dict(op='settle'))
                continue
            if rng.random() < 0.15:
                # motif: parent and child in the mempool, a subscriber of the child's output script; a block
                # confirming only the parent is found between the mempool listing and the height request of
                # one refresh, and that height request is slow (the index reaches the block meanwhile)
                plan.append(dict(op='mp_add', n=1, chain=0.0, seed=rng.getrandbits(32)))
                plan.append(dict(op='mp_add', n=1, chain=1.0, seed=rng.getrandbits(32)))
                plan.append(dict(op='c_sub_tx', c=rng.randrange(nclients), o=rng.randrange(4)))
                if rng.random() < 0.7:
                    plan.append(dict(op='settle'))
                plan.append(dict(op='on_rpc', method='getrawmempool', skip=rng.randrange(2), then=[
                    dict(op='mine', n=1, ntx=[rng.randint(0, 3)], seed=rng.getrandbits(32), confirm='parents'),
                    dict(op='slow', method='getblockcount', delay=rng.choice([3.0, 8.0, 15.0, 30.0]))]))
                plan.append(dict(op='wait', dt=rng.choice([8.0, 20.0, 45.0])))
                plan.append(dict(op='settle'))
                continue
            ops = self.chain_ops(rng, k, at_max) + self.client_ops(rng, nclients, at_max, k)
            rng.shuffle(ops)
            plan.extend(ops)
            plan.append(dict(op='settle'))
        return dict(family=self.fam, knobs=k, plan=plan)


class MempoolFamily(SubsFamily):
    name = 'mempool'
    fam = 'mempool'

    def gen(self, rng, tier, prop):
        k, plan = self.base(rng, tier)
        races = prop == 'C09' or rng.random() < 0.3
        if not races:
            k['fault_rate'] = 0.0
        elif rng.random() < 0.5:
            # the tracker's own database look-ups are slow (nothing else is), and tend to come back right after
            # a job of the block processor has completed: a flush lands between the passes of one look-up
            k['stall_boost'] = (rng.choice(['lookup_utxos', 'lookup_hashXs', 'lookup_utxos', 'deserialize_txs']),
                                rng.choice([0.4, 0.8]), 'MemPool', rng.choice(['release', 'release', 'timed']))
            k['stall_p'] = 0.0
        if races and rng.random() < 0.3:
            # the tracker's periodic statistics task runs every second or so instead of every minute, and worker
            # threads are pre-empted between source lines: whatever it shares with the refresher is exposed
            k['log_status_secs'] = rng.choice([0.3, 1.0, 3.0])
            k['line_p'] = rng.choice([0.05, 0.2])
            k['line_stall_p'] = rng.choice([0.05, 0.2])
            k['stall_max'] = rng.choice([0.5, 3.0, 8.0])
            k['preempt'] = True
            if rng.random() < 0.6:
                # ... with a large mempool that keeps changing a little every second or so
                plan.append(dict(op='mp_add', n=rng.choice([60, 120, 230]), chain=rng.choice([0.0, 0.3]),
                                 seed=rng.getrandbits(32)))
                plan.append(dict(op='wait', dt=rng.choice([6.0, 12.0])))
                t = 0.0
                for _ in range(rng.randint(8, 25)):
                    t += rng.uniform(0.3, 2.5)
                    if rng.random() < 0.6:
                        plan.append(dict(op='mp_add', n=rng.randint(1, 3), chain=0.3, at=round(t, 2),
                                         seed=rng.getrandbits(32)))
                    else:
                        plan.append(dict(op='mp_evict', k=rng.randrange(200), at=round(t, 2)))
                plan.append(dict(op='wait', dt=round(t + 10.0, 1)))
        for _ in range(rng.randint(2, 5)):
            at_max = rng.choice([0.0, 3.0, 12.0]) if races else 0.0
            for _ in range(rng.randint(1, 4)):
                at = round(rng.uniform(0, at_max), 3) if at_max else 0
                r = rng.random()
                if r < 0.5:
                    plan.append(dict(op='mp_add', n=rng.choice([1, 2, 3, 6, 12, 30, 30, 120, 260]),
                                     chain=rng.choice([0.0, 0.5, 0.95]), at=at, seed=rng.getrandbits(32)))
                elif r < 0.6:
                    plan.append(dict(op='mp_evict', k=rng.randrange(30), at=at))
                elif r < 0.7:
                    plan.append(dict(op='mp_flicker', k=rng.randrange(30), at=at,
                                     gap=round(rng.uniform(0.0, 3.0), 3)))
                elif r < 0.9:
                    n = rng.randint(1, 2)
                    plan.append(dict(op='mine', n=n, ntx=ntx_list(rng, n), at=at, seed=rng.getrandbits(32),
                                     confirm=rng.choice([0.0, 0.3, 0.7, 1.0])))
                else:
                    plan.append(dict(op='fork', depth=rng.choice([1, 2]), extra=1, ntx=[2, 3],
                                     remine=rng.choice([0.0, 1.0]), at=at, seed=rng.getrandbits(32)))
            if races and rng.random() < 0.3:
                plan.append(self.rpc_race(rng))
            if races and rng.random() < 0.25:
                # motif: a block, and a second one found right after the next height request was answered (the
                # refresher knows the first only; the index may take both in one go) - with what the mempool
                # held confirmed by either
                plan.append(dict(op='mine', n=1, ntx=[rng.randint(0, 3)], seed=rng.getrandbits(32),
                                 confirm=rng.choice([0.0, 0.5, 1.0]), at=round(rng.uniform(0.0, 6.0), 2)))
                plan.append(dict(op='on_rpc', method='getblockcount', skip=rng.randrange(3), then=[
                    dict(op='mine', n=1, ntx=[rng.randint(0, 3)], seed=rng.getrandbits(32),
                         confirm=rng.choice([0.0, 0.5, 1.0]))]))
            if races and rng.random() < 0.25:
                # motif: more new transactions than fit in one fetch batch (200), the batches answered after
                # different, long delays; while they are under way a block is found (the block processor's poll
                # moves the cached daemon height) and transactions of the batch still outstanding are evicted
                a = rng.choice([3.0, 7.0, 12.0])
                b = a + rng.choice([4.0, 9.0, 20.0])
                plan.append(dict(op='slow', method='getrawtransaction', delay=a))
                plan.append(dict(op='slow', method='getrawtransaction', delay=b))
                plan.append(dict(op='mp_add', n=rng.choice([210, 260, 330]), chain=rng.choice([0.0, 0.3]),
                                 seed=rng.getrandbits(32)))
                plan.append(dict(op='mine', n=1, ntx=[rng.randint(0, 3)], seed=rng.getrandbits(32),
                                 confirm=rng.choice([0.0, 0.0, 0.1]), at=round(rng.uniform(0.2, a), 2)))
                for _ in range(rng.randint(1, 4)):
                    plan.append(dict(op='mp_evict', k=rng.randrange(300), at=round(rng.uniform(a, b), 2)))
                plan.append(dict(op='wait', dt=b + rng.choice([6.0, 15.0])))
            if rng.random() < 0.1:
                # motif: one long chain of unconfirmed transactions (each spending the one before) seen for the first
                # time in a single refresh, in whatever order the daemon lists it
                plan.append(dict(op='mp_add', n=rng.choice([60, 120, 200]), chain=1.0, linear=True, seed=rng.getrandbits(32)))
                plan.append(dict(op='wait', dt=rng.choice([8.0, 16.0])))
                plan.append(dict(op='settle'))
            if rng.random() < 0.08 and self.CHILD_MOTIF:
                self.child_across_same_height_reorg(rng, k, plan)
            if rng.random() < 0.15:
                # motif: clients keep asking for confirmed histories / unspent lists (worker-thread reads of the same
                # files and tables) while the tracker looks up the confirmed outputs that new mempool transactions
                # spend: the refreshes completing meanwhile are synchronised ones and must be exact all the same
                k['preempt'] = True
                k['line_p'] = 0.0           # (hundreds of traced history reads cost minutes of wall clock per run)
                k['line_stall_p'] = 0.0
                ncl = rng.randint(1, 3)
                for c in range(ncl):
                    for _ in range(rng.randint(1, 3)):
                        plan.append(dict(op='c_query', c=c, m=rng.choice(['get_history', 'get_history', 'listunspent']),
                                         s=rng.randrange(13), h=0, pos=0, merkle=False,
                                         at=round(rng.uniform(0.01, 1.0), 2), rep=rng.choice([40, 80]),
                                         every=rng.choice([0.1, 0.2, 0.3])))
                for _ in range(rng.randint(2, 5)):
                    plan.append(dict(op='mp_add', n=rng.choice([3, 6, 12, 30]), chain=rng.choice([0.0, 0.3]),
                                     at=round(rng.uniform(0.5, 12.0), 2), seed=rng.getrandbits(32)))
                plan.append(dict(op='wait', dt=rng.choice([16.0, 25.0])))
                plan.append(dict(op='settle'))
            if rng.random() < 0.12:
                # motif: the daemon is merely slow - one batch of raw transactions takes much longer than several
                # refresh periods (well inside the HTTP client's 5-minute limit) while nothing else changes: the
                # refresh that completes afterwards is a synchronised one
                delay = rng.choice([20.0, 35.0, 50.0, 90.0, 150.0])
                plan.append(dict(op='mp_add', n=rng.choice([1, 3, 12, 40]), chain=rng.choice([0.0, 0.5]),
                                 seed=rng.getrandbits(32)))
                plan.append(dict(op='slow', method='getrawtransaction', delay=delay))
                plan.append(dict(op='wait', dt=delay + rng.choice([8.0, 20.0])))
            if races:
                # refreshes (every 5 s) must happen while faults, stalls and triggers are armed: settle switches
                # them off
                plan.append(dict(op='wait', dt=round(rng.uniform(0.5, 16.0), 2)))
                if rng.random() < 0.5:
                    plan.append(dict(op='settle'))
            else:
                plan.append(dict(op='settle'))
        plan.append(dict(op='settle'))
        return dict(family='mempool', knobs=k, plan=plan, target=prop)


class StaleFamily(SubsFamily):
    name = 'stale'
    fam = 'stale'

    def gen(self, rng, tier, prop):
        k, plan = self.base(rng, tier)
        k['stall_p'] = rng.choice([0.0, 0.01, 0.05, 0.2])     # reads parked across a reorg
        if rng.random() < 0.5:
            k['stall_boost'] = (rng.choice(['fs_tx_hashes_at_blockheight', 'read_history', 'read_headers',
                                            'read_utxos', 'lookup_hashXs', 'lookup_utxos']), 0.5)
            if rng.random() < 0.6:
                # only reads done on behalf of client requests are slow: the block processor overtakes them
                k['stall_boost'] += ('RPCSession', rng.choice(['release', 'timed']))
        nclients = rng.randint(1, 2)
        for c in range(nclients):
            plan.append(dict(op='c_connect', c=c))
        for _ in range(rng.randint(1, 3)):
            at_max = rng.choice([2.0, 8.0, 20.0])
            ops = self.chain_ops(rng, k, at_max)
            # cache-populating queries before, during and after the reorg window
            for _ in range(rng.randint(2, 8)):
                at = round(rng.uniform(0, at_max + 3), 3)
                m = rng.choice(['get_history', 'get_history', 'listunspent', 'get_balance', 'id_from_pos',
                                'id_from_pos', 'get_merkle', 'header'])
                q = dict(op='c_query', c=rng.randrange(nclients), m=m, s=rng.randrange(13),
                         h=rng.randrange(1000), pos=rng.randrange(4), merkle=rng.random() < 0.5,
                         cp=rng.choice([0, rng.randrange(1, 1000), rng.randrange(1, 1000)]), at=at)
                if rng.random() < 0.6:
                    q['back'] = rng.choice([0, 0, 1, 2, 3])     # the heights a reorg replaces
                ops.append(q)
            rng.shuffle(ops)
            plan.extend(ops)
            if rng.random() < 0.12 and self.CHILD_MOTIF:
                self.child_across_same_height_reorg(rng, k, plan)
            if rng.random() < 0.3:
                # motif: the same script-hash request over and over (several clients) while a block that touches
                # the script is indexed and notified and the reads behind those requests are slow: requests that
                # arrive after the notification overlap reads that began before the flush
                # a history read passes a seam per transaction: a low probability per seam gives reads that are
                # slow by seconds (one or two stalls), not by minutes
                k['stall_boost'] = ('read_history', rng.choice([0.03, 0.08, 0.2]), rng.choice(['RPCSession', '', '']),
                                    rng.choice(['release', 'timed', 'timed']))
                k['stall_p'] = 0.0
                k['stall_max'] = rng.choice([3.0, 6.0, 12.0])
                k['boost_locked'] = True                                # later motifs of this run keep this choice
                if rng.random() < 0.35:
                    # ... or every read is slow by a second or so (also the header read at the start of a notification
                    # round): a history read can finish inside that round
                    k['stall_boost'] = None
                    k['stall_p'] = rng.choice([0.05, 0.15, 0.3])
                    k['stall_max'] = rng.choice([1.0, 3.0])
                sx = rng.randrange(8)
                tq = round(rng.uniform(0.5, 3.0), 2)
                for c in range(nclients):
                    plan.append(dict(op='c_query', c=c, m=rng.choice(['get_history', 'get_history', 'get_balance']),
                                     s=sx, h=0, pos=0, merkle=False, at=round(max(0.01, tq - rng.uniform(0, 1.5)), 2),
                                     rep=rng.choice([60, 100, 150]), every=rng.choice([0.2, 0.3, 0.5])))
                for j in range(rng.randint(1, 4)):
                    # blocks at intervals while the storms go on: each is a chance for a read to straddle its flush
                    plan.append(dict(op='mine', n=1, ntx=[rng.randint(4, 12)], at=round(tq + j * rng.uniform(6.0, 11.0), 2),
                                     seed=rng.getrandbits(32), confirm=rng.choice([0.0, 1.0])))
                plan.append(dict(op='wait', dt=rng.choice([25.0, 45.0])))
                plan.append(dict(op='settle'))
            if rng.random() < 0.2:
                # motif: answers are cached, then every client leaves; the chain moves while the server has no
                # session at all; clients come back at quiescence
                for _ in range(rng.randint(2, 5)):
                    plan.append(dict(op='c_query', c=rng.randrange(nclients),
                                     m=rng.choice(['get_history', 'get_history', 'get_balance', 'id_from_pos']),
                                     s=rng.randrange(13), h=rng.randrange(1000), pos=rng.randrange(4),
                                     merkle=rng.random() < 0.5, back=rng.choice([0, 0, 1, 2])))
                plan.append(dict(op='wait', dt=rng.choice([1.0, 3.0])))
                plan.append(dict(op='c_disconnect_all'))
                plan.append(dict(op='wait', dt=rng.choice([0.5, 2.0])))
                plan.extend(self.chain_ops(rng, k, 3.0))
                plan.append(dict(op='wait', dt=rng.choice([15.0, 30.0, 60.0])))
                plan.append(dict(op='settle'))
            if rng.random() < 0.35:
                # motif: fresh blocks (not yet in any cache), a by-height request for one of them that may
                # be parked on a slow disk, and a fork replacing those blocks right afterwards
                n = rng.randint(1, 2)
                tq = round(rng.uniform(5.5, 11.0), 2)
                if rng.random() < 0.6 and not k.get('boost_locked'):
                    k['stall_boost'] = (rng.choice(['fs_tx_hashes_at_blockheight', 'fs_tx_hashes_at_blockheight',
                                                    'read_headers']), rng.choice([0.4, 0.8]),
                                        rng.choice(['RPCSession', 'RPCSession', 'Session']),
                                        rng.choice(['release', 'timed']))
                    k['stall_p'] = 0.0
                plan.append(dict(op='mine', n=n, ntx=ntx_list(rng, n), seed=rng.getrandbits(32)))
                for _ in range(rng.randint(1, 3)):
                    plan.append(dict(op='c_query', c=rng.randrange(nclients),
                                     m=rng.choice(['id_from_pos', 'get_merkle', 'id_from_pos']),
                                     back=rng.randrange(n), h=0, pos=rng.randrange(4),
                                     merkle=rng.random() < 0.5, at=tq))
                plan.append(dict(op='fork', depth=rng.choice([n, n, n + 1]), extra=1, ntx=ntx_list(rng, 3),
                                 remine=rng.choice([0.0, 0.5]), at=round(tq + rng.uniform(0.0, 3.0), 2),
                                 seed=rng.getrandbits(32)))
            if rng.random() < 0.4:
                # motif: a fork and, all through the time the server needs to back up and re-advance, a storm
                # of by-height requests for the replaced heights (stale file contents at the same offsets)
                d = rng.randint(1, 3)
                tq = round(rng.uniform(0.5, 3.0), 2)
                if rng.random() < 0.6:
                    # the reads these requests need are slow, nothing else is: the reorg overtakes them
                    k['stall_boost'] = (rng.choice(['fs_tx_hashes_at_blockheight', 'fs_tx_hashes_at_blockheight',
                                                    'read_headers']), rng.choice([0.4, 0.8]),
                                        rng.choice(['RPCSession', 'RPCSession', 'Session']),
                                        rng.choice(['release', 'timed']))
                    k['stall_p'] = 0.0
                plan.append(dict(op='fork', depth=d, extra=rng.choice([0, 1, 1, 2]), ntx=ntx_list(rng, d + 2),
                                 remine=rng.choice([0.0, 0.5]), at=tq, seed=rng.getrandbits(32)))
                for _ in range(rng.randint(1, 2)):
                    plan.append(dict(op='c_query', c=rng.randrange(nclients),
                                     m=rng.choice(['id_from_pos', 'id_from_pos', 'get_merkle']),
                                     back=rng.randrange(d + 1), h=0, pos=rng.randrange(4),
                                     merkle=rng.random() < 0.3, at=tq,
                                     rep=rng.choice([8, 16, 30]), every=rng.choice([0.05, 0.2, 0.45])))
                if rng.random() < 0.4:
                    # a second fork while the storm goes on: the caches are cold again in between
                    plan.append(dict(op='fork', depth=rng.randint(1, 2), extra=1, ntx=ntx_list(rng, 3),
                                     remine=rng.choice([0.0, 0.5]), at=round(tq + rng.uniform(2.0, 9.0), 2),
                                     seed=rng.getrandbits(32)))
            plan.append(dict(op='settle'))
        return dict(family=self.fam, knobs=k, plan=plan)


class ProofsFamily(StaleFamily):
    name = 'proofs'
    fam = 'proofs'

    def gen(self, rng, tier, prop):
        case = super().gen(rng, tier, prop)
        if rng.random() < 0.4:
            # motif: blocks of >= 200 transactions (the session manager keeps an incremental merkle cache per
            # such height), proof requests of all kinds for them in flight - parked on slow header / hash
            # reads - while a fork replaces them with other large blocks
            k, plan = case['knobs'], case['plan']
            nclients = 1 + max([op['c'] for op in plan if 'c' in op] or [0])
            k['stall_boost'] = (rng.choice(['read_headers', 'fs_tx_hashes_at_blockheight', 'read_headers']),
                                rng.choice([0.4, 0.8]), 'RPCSession', rng.choice(['release', 'timed']))
            k['stall_p'] = 0.0      # only reads on behalf of client requests are slow: the reorg overtakes them
            k['queue_p'] = rng.choice([0.0, 0.3, 0.6, 0.6])     # ... and their jobs may wait in the executor's queue
            d = rng.choice([1, 1, 2])
            big = lambda: rng.randint(200, 270)     # noqa: E731
            plan.append(dict(op='mine', n=d, ntx=[big() for _ in range(d)], seed=rng.getrandbits(32)))
            # variant "fresh": no quiescence sweep between the large blocks and the storm - the first proof request
            # for such a height is a cache miss and builds the per-height merkle cache while the fork arrives
            fresh = rng.random() < 0.5
            if fresh:
                k['queue_p'] = rng.choice([0.3, 0.6, 0.9])
                tq = round(rng.uniform(1.0, 10.0), 2)
            else:
                plan.append(dict(op='settle'))
                tq = round(rng.uniform(0.3, 3.0), 2)
            for _ in range(rng.randint(1, 3)):
                # storms start a little before the fork and go on until the server has dealt with it; mostly
                # they ask only about the transactions of the block about to be replaced, so that nothing but a
                # request parked across the reorg can touch the per-height caches afterwards
                plan.append(dict(op='c_query', c=rng.randrange(nclients),
                                 m=rng.choice(['get_tsc_merkle', 'get_tsc_merkle', 'get_merkle']),
                                 back=rng.randrange(d), h=0, pos=rng.randrange(400), merkle=True,
                                 tt=rng.randrange(3),
                                 at=round(max(0.01, tq - rng.uniform(0.0, tq if fresh else 1.0)), 2),
                                 alt=rng.choice(['first', 'first', 'first', 'rotate']),
                                 rep=rng.choice([60, 90] if fresh else [30, 45, 60]),
                                 every=rng.choice([0.15, 0.2, 0.3])))
            plan.append(dict(op='fork', depth=d, extra=1, ntx=[big() for _ in range(d)] + [2], remine=0.0,
                             at=tq, seed=rng.getrandbits(32)))
            plan.append(dict(op='settle'))
        elif rng.random() < 0.2:
            # motif: the server is restarted and a fork arrives while it is still populating its header merkle
            # cache (the header reads of that start-up task are slow)
            k, plan = case['knobs'], case['plan']
            nclients = 1 + max([op['c'] for op in plan if 'c' in op] or [0])
            k['stall_boost'] = ('read_headers', rng.choice([0.6, 0.9]), 'populate_header_merkle_cache', 'timed')
            k['stall_p'] = 0.0
            k['preempt'] = True
            plan.append(dict(op='restart'))
            d = rng.choice([1, 1, 2, 3])
            plan.append(dict(op='fork', depth=d, extra=rng.choice([0, 1, 1, 2]), ntx=ntx_list(rng, d + 2),
                             remine=rng.choice([0.0, 0.5]), at=round(rng.uniform(0.0, 8.0), 2),
                             seed=rng.getrandbits(32)))
            for _ in range(rng.randint(0, 2)):
                plan.append(dict(op='c_query', c=rng.randrange(nclients), m='header', h=rng.randrange(1000),
                                 cp=rng.randrange(1, 1000), at=round(rng.uniform(0.0, 15.0), 2)))
            plan.append(dict(op='wait', dt=rng.choice([10.0, 30.0])))
            plan.append(dict(op='settle'))
        elif rng.random() < 0.3:
            # motif: header proofs with the old tip as checkpoint all through a fork, while the block processor's
            # own backup jobs are slow (parked between truncating the header cache, rolling back the history and
            # committing the lower height)
            k, plan = case['knobs'], case['plan']
            nclients = 1 + max([op['c'] for op in plan if 'c' in op] or [0])
            k['stall_boost'] = ('backup_block', rng.choice([0.3, 0.6, 0.9]))
            k['stall_p'] = 0.0
            k['preempt'] = True
            d = rng.choice([1, 1, 2, 3])
            tq = round(rng.uniform(0.3, 3.0), 2)
            for _ in range(rng.randint(1, 2)):
                plan.append(dict(op='c_query', c=rng.randrange(nclients), m='header', back=rng.randrange(d), h=0,
                                 cp=1, pos=rng.randrange(3), at=round(max(0.01, tq - rng.uniform(0.0, 1.0)), 2),
                                 alt='rotate', rep=rng.choice([30, 60, 90]), every=rng.choice([0.1, 0.2, 0.4])))
            plan.append(dict(op='fork', depth=d, extra=rng.choice([0, 1, 1, 2]), ntx=ntx_list(rng, d + 2),
                             remine=rng.choice([0.0, 0.5]), at=tq, seed=rng.getrandbits(32)))
            plan.append(dict(op='settle'))
        return case


SUBS = SubsFamily()
MEMPOOL = MempoolFamily()
STALE = StaleFamily()
PROOFS = ProofsFamily()
