"""Family `blockstream` (C13): the real OnDiskBlock streaming a generated block from the simulated
disk for every chunk size / alignment, forward and reverse, with EOF (interrupted download) faults;
plus transaction round trips and truncation.  DESIGN.md 7/C13."""
import random
import types

from props.common import Family
from sim.kernel import Sim, HarnessError
from sim import seams
from sim.plan import Result, Violation
from sim.chaingen import BlockTree, ChainGen, Tx, ZERO32, P2PKH, varint, ser_tx

import electrumx.server.block_processor as bpmod
from electrumx.lib.tx import Deserializer


def boundary_tx(rng):
    """Transactions on varint width boundaries for counts and script lengths."""
    kind = rng.randrange(6)
    if kind == 0:
        n = rng.choice([252, 253, 254])
        return Tx([(bytes([1]) * 32, 0, b'', 1)], [(0, b'')] * n, locktime=rng.getrandbits(32))
    if kind == 1:
        n = rng.choice([252, 253])
        return Tx([(bytes([i % 256]) * 32, i, b'', 0) for i in range(n)], [(1, b'\x51')])
    if kind == 2:
        ln = rng.choice([252, 253, 254, 65535, 65536, 65537])
        return Tx([(bytes([2]) * 32, 1, b'\x00' * rng.choice([0, 252, 253]), 0xffffffff)],
                  [(2 ** 63 - 1, b'\x6a' + bytes(ln - 1)), (0, b'')])
    if kind == 3:
        return Tx([(ZERO32, 0xffffffff, b'\x01\x02', 0xffffffff)], [(50, P2PKH[0])], version=-1)
    if kind == 4:
        return Tx([(bytes([3]) * 32, 0xfffffffe, b'', 0)], [(-1, b'')], locktime=0xffffffff)
    return Tx([(bytes([4]) * 32, 7, bytes(rng.randrange(0, 300)), 5)],
              [(rng.getrandbits(40), bytes(rng.randrange(0, 300))) for _ in range(rng.randint(1, 5))])


class Env:
    """Minimal world for unit simulations: simulator + simulated storage, no server."""

    def __init__(self, chooser):
        self.sim = Sim(chooser, preempt=False)
        self.sim.loop = types.SimpleNamespace(_ready=(), _stopping=False)
        self.fs = seams.SimFS()
        self.fs.sim = self.sim
        self.store = seams.SimDBStore()
        seams.install_storage(self)
        self.fs.dirs.update({'/db/meta', '/db/meta/blocks'})


class BlockStreamFamily(Family):
    name = 'blockstream'

    def gen(self, rng, tier, prop):
        ntx = rng.choice([1, 1, 2, 3, 5, 8, 12, 30])
        big = rng.choice([0, 0, 300, 2000, 70000])
        big_at = rng.choice([0, ntx // 2, ntx - 1]) if big else None
        mode = rng.choice(['sweep', 'sweep', 'eof', 'tx'])
        return dict(plan=[dict(op=mode, ntx=ntx, big=big, big_at=big_at, seed=rng.getrandbits(32),
                               boundary=rng.random() < 0.3,
                               chunk=rng.choice([None, 9, 17, 64, 100, 150, 200, 1000]),
                               cut=rng.random())])

    def _block(self, op):
        rng = random.Random(op['seed'])
        tree = BlockTree(5)
        gen = ChainGen(tree, dict(p_collide=0.0))
        b = None
        for _ in range(3):
            b = gen.make_block(b, rng, 12)
        blk = gen.make_block(b, rng, op['ntx'], big_at=op['big_at'], big=op['big'])
        if op.get('boundary'):
            from sim.chaingen import Block
            extra = [boundary_tx(rng) for _ in range(rng.randint(1, 2))]
            txs = list(blk.txs)
            for t in extra:
                txs.insert(rng.randrange(0, len(txs) + 1), t)
            blk = Block(b, txs, 1)
        return blk

    def execute(self, case, chooser, trace=False, logs=False):
        res = Result()
        env = Env(chooser)
        op = case['plan'][0]
        blk = self._block(op)
        raw = blk.raw
        name = bpmod.OnDiskBlock.filename(blk.hex, blk.height)
        truth = [(t.raw, t.hash) for t in blk.txs]
        old_chunk = bpmod.OnDiskBlock.chunk_size
        bpmod.OnDiskBlock.log_block = False
        evals = 0

        def stream(reverse, data):
            env.fs.files['/db/' + name] = bytearray(data)
            out = []
            err = None
            try:
                with bpmod.OnDiskBlock(blk.hex, blk.height, len(data)) as b:
                    it = b.iter_txs_reversed() if reverse else b.iter_txs()
                    for tx, h in it:
                        out.append((tx.serialize(), h))
                        if len(out) > len(truth) + 2:
                            err = 'too many'
                            break
            except Exception as e:     # noqa: B902
                err = e
            return out, err

        def viol(clause, msg):
            res.violations.append(Violation('C13', clause, msg))

        try:
            if op['op'] == 'sweep':
                sizes = [op['chunk']] if op['chunk'] else []
                if len(raw) < 1500:
                    sizes += list(range(9, len(raw) - 80 + 12))
                else:
                    rng = random.Random(op['seed'] ^ 1)
                    sizes += [9, 64, len(raw), len(raw) - 81, len(raw) - 80, len(raw) + 7] + \
                        [rng.randrange(9, len(raw)) for _ in range(12)]
                for cs in dict.fromkeys(s for s in sizes if s and s >= 9):
                    bpmod.OnDiskBlock.chunk_size = cs
                    for reverse in (False, True):
                        evals += 1
                        out, err = stream(reverse, raw)
                        exp = truth[::-1] if reverse else truth
                        if err is not None or out != exp:
                            viol('stream.reverse' if reverse else 'stream.forward',
                                 f'chunk_size={cs} ntx={len(truth)} first_tx_len={len(truth[0][0])} '
                                 f'yielded {len(out)} err={err!r}')
                            break
                    if res.violations:
                        break
            elif op['op'] == 'eof':
                cs = op['chunk'] or 64
                bpmod.OnDiskBlock.chunk_size = cs
                cut = 81 + int(op['cut'] * (len(raw) - 82))
                for reverse in (False, True):
                    evals += 1
                    out, err = stream(reverse, raw[:cut])
                    exp = truth[::-1] if reverse else truth
                    if err is None:
                        viol('eof.no_error', f'truncated at {cut}/{len(raw)} chunk={cs} reverse='
                             f'{reverse}: no exception, {len(out)} txs yielded')
                    elif not reverse and out != exp[:len(out)]:
                        viol('eof.wrong_tx', f'truncated at {cut}/{len(raw)} chunk={cs}: yielded a '
                             f'transaction that is not in the block at position '
                             f'{next(i for i, (a, b) in enumerate(zip(out, exp)) if a != b)}')
                    elif reverse and any(o not in truth for o in out):
                        viol('eof.wrong_tx', f'reverse, truncated at {cut}/{len(raw)} chunk={cs}: '
                             f'yielded a transaction that is not in the block')
            else:
                rng = random.Random(op['seed'] ^ 2)
                txs = list(blk.txs) + [boundary_tx(rng) for _ in range(3)]
                for t in txs:
                    evals += 1
                    tx, h = Deserializer(t.raw).read_tx_and_hash()
                    if tx.serialize() != t.raw or h != t.hash:
                        viol('tx.roundtrip', f'tx of {len(t.raw)} bytes does not round-trip')
                    cuts = range(len(t.raw)) if len(t.raw) < 400 else \
                        sorted({rng.randrange(len(t.raw)) for _ in range(60)} | {len(t.raw) - 1, len(t.raw) - 4, 0, 4, 5})
                    for c in cuts:
                        try:
                            Deserializer(t.raw[:c]).read_tx_and_hash()
                            viol('tx.truncated_parses', f'prefix {c}/{len(t.raw)} parsed')
                            break
                        except Exception:
                            pass
                    # with trailing garbage the hash covers exactly the tx bytes
                    d = Deserializer(t.raw + b'\x99' * 5)
                    tx2, h2 = d.read_tx_and_hash()
                    if h2 != t.hash or d.cursor != len(t.raw):
                        viol('tx.hash_span', 'hash not over exactly the tx bytes')
        finally:
            bpmod.OnDiskBlock.chunk_size = old_chunk
        res.stats['evals'] = evals
        res.probes['streams'] = evals
        res.digest = env.sim.digest()
        res.choices = env.sim.ch.rec
        res.nontrivial = True
        res.isig = hash((op['op'], op['ntx'], op['big'], op['big_at'], op['chunk'], op['seed'] % 64))
        return res

    def describe(self, case):
        return case['plan'][0]


FAMILY = BlockStreamFamily()
