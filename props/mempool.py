from props.server import MEMPOOL as FAMILY  # noqa: F401
