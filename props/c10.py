from props.server import STALE as FAMILY  # noqa: F401

CHECK = dict(
    property='C10', level='exploration',
    families=[('stale', 1.0)],
    budget=dict(quick=55, thorough=900), max_runs=dict(quick=200_000, thorough=5_000_000),
    rule='an unconfirmed child looked up between the undoing of the tip and the indexing of an equal-height replacement (slow fetch, slow download); motifs: the same script-hash request repeated by several clients over blocks that are indexed and notified meanwhile (reads slow by seconds); every client gone while the chain moves; operator `query` look-ups with small limits; each evaluation = one simulated run of the real server through C07-style histories (blocks, natural and forced reorgs incl. ones ending at the same height, mempool changes) with cache-populating client queries (get_history, listunspent, get_balance, id_from_pos, get_merkle, header proofs) placed at scheduler-chosen offsets before, during and after reorg windows (LRU caches at production size so entries are never evicted); at each quiescence point every query of the property for every pool script and every height 0..tip+2 is asked by an old client and by a fresh one and compared with RefIndex / RefMempool (confirmed parts in chain order, errors expected beyond the tip). non-trivial = a full answer sweep completed',
    assumptions=['model bitcoind / Electrum clients / TCP / LevelDB / file system are simulator models; '
                 'everything of ElectrumX and aiorpcX runs real', 'session cost throttling disabled '
                 '(COST_*_LIMIT=0) so that oracle sweeps are not throttled',
                 'mempool comparisons leave out the unspendable script forms (OP_RETURN / OP_FALSE OP_RETURN)'],
    required_probes=['c10.sweeps', 'backup_blocks', 'admin_reorg.accepted'],
)
