from props.daemonfaults import FAMILY, enumerate_sequences  # noqa: F401

CHECK = dict(
    property='C18', level='fault_enumeration',
    families=[('daemonfaults', 1.0)],
    extras=[enumerate_sequences],
    budget=dict(quick=20, thorough=420), max_runs=dict(quick=2_000_000, thorough=50_000_000),
    rule=('the model HTTP reply carries bitcoind\'s status codes and a readchunk() whose chunk ends can arrive apart from their data; exhaustive part: every fault sequence up to length 3 (quick) / 5 (thorough) over the alphabet '
          '{timeout, disconnect, reset, connection error, client error, HTTP 500 refusal, warming-up (single and '
          'inside a batch), mid-body cut} x every call kind (height, block_hex_hashes, getrawtransactions with and '
          'without error replacement, mempool_hashes, getrawtransaction, broadcast, get_block to the simulated '
          'disk, and two calls with genuine RPC errors) x 1..2 (quick) / 1..3 (thorough) URLs against the real '
          'Daemon class on the virtual-time loop; seeded part: random sequences up to length 11, varied '
          'init_retry/max_retry (incl. init == max), concurrent calls. Oracle: the call returns the genuine, '
          'complete, positionally aligned answer of the model daemon that served the successful attempt; genuine '
          'RPC errors are raised after exactly one extra attempt; one HTTP request per fault plus one; nothing in '
          'flight afterwards; URL changes only +1 round-robin; sleeps in [init,max] or 0; fail-over exactly at '
          'the error whose back-off (learnt from a single-URL run of the same Daemon on the same sequence) first '
          'reaches max_retry; block file byte-identical and size truthful after cut attempts. '
          'non-trivial = >= 1 fault; distinct = distinct (call, urls, sequence, constants)'),
    assumptions=['aiohttp is replaced by a shim raising the real aiohttp exception classes',
                 'the model daemons answer batches in request order, as bitcoind does'],
    components={'real': ['electrumx.server.daemon.Daemon (_send, _send_single, _send_vector, _post_json, '
                         '_get_to_file, failover)', 'asyncio (virtual-time loop)'],
                'stub': ['aiohttp.ClientSession (shim)', 'bitcoind (3 model daemons)', 'file system (SimFS)']},
)
