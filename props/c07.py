from props.server import SUBS as FAMILY  # noqa: F401

CHECK = dict(
    property='C07', level='exploration',
    families=[('subs', 1.0)],
    budget=dict(quick=55, thorough=900), max_runs=dict(quick=200_000, thorough=5_000_000),
    rule='a slow header read of a mempool-driven notification round overtaken by a same-height reorganisation; clients negotiate protocol 1.4 / 1.4.1 / 1.4.2 or none; what a client holds is what arrived last; motifs: a client that connects and subscribes while the header read of a notification round is slow; quiescence requires the block processor\'s report at the current height; each evaluation = one simulated run of the real server with 1-3 model Electrum clients over the simulated TCP (real aiorpcX framing / JSON-RPC / sessions) subscribing / unsubscribing pool scripts and headers, disconnecting, broadcasting, querying, while the model daemon produces blocks, forks, forced reorgs, mempool arrivals / evictions / confirmations under daemon latencies up to several seconds (refresh slower than one poll), daemon faults, thread stalls and cache-pressure flushes at intermediate heights. Monitor: a header notification / reply is never written to a transport before the DB is at that height with that header on disk. Oracle at each quiescence point (daemon frozen, index caught up, a synchronised mempool refresh seen after the last daemon change, two more refresh periods drained): for every still-connected client the last status held for every subscribed script is in RefStatus (confirmed part ordered, any permutation of the mempool part) and the last header held is the tip; the recorded Notifications calls are fed to RefNotifications (organic C20). non-trivial = statuses checked at >= 2 quiescence points; distinct = distinct interleaving signature incl. the Notifications call sequence',
    assumptions=['model bitcoind / Electrum clients / TCP / LevelDB / file system are simulator models; '
                 'everything of ElectrumX and aiorpcX runs real', 'session cost throttling disabled '
                 '(COST_*_LIMIT=0) so that oracle sweeps are not throttled',
                 'mempool comparisons leave out the unspendable script forms (OP_RETURN / OP_FALSE OP_RETURN)'],
    required_probes=['c07.status_checked', 'c07.status_with_mempool', 'c07.header_checked', 'backup_blocks', 'refresh.unsynchronised'],
)
