from props.server import PROOFS as FAMILY  # noqa: F401

CHECK = dict(
    property='C11', level='exploration',
    families=[('proofs', 0.7), ('merkle', 0.3)],
    budget=dict(quick=55, thorough=900), max_runs=dict(quick=200_000, thorough=5_000_000),
    rule='fresh blocks of >= 200 transactions whose first proof request (a cache miss) overlaps the fork replacing them; motifs: header proofs with the old tip as checkpoint all through a fork while the backup jobs are slow; a restart with a fork arriving while the header merkle cache is being populated; each evaluation = one simulated run as in C10; at each quiescence point id_from_pos(merkle=true), get_merkle and get_tsc_merkle (all target types) for all positions of small blocks and sampled positions of large ones, block.header(h, cp) for all (h <= cp <= tip) pairs on short chains (sampled on longer ones) and block.headers with a checkpoint are verified with an independent merkle fold against the header / the merkle root of the current block hashes up to the checkpoint; out-of-range requests must be refused; proof requests are also in flight while blocks are undone (cache-populating requests in the reorg window). non-trivial = a proof sweep completed',
    assumptions=['model bitcoind / Electrum clients / TCP / LevelDB / file system are simulator models; '
                 'everything of ElectrumX and aiorpcX runs real', 'session cost throttling disabled '
                 '(COST_*_LIMIT=0) so that oracle sweeps are not throttled',
                 'mempool comparisons leave out the unspendable script forms (OP_RETURN / OP_FALSE OP_RETURN)'],
    required_probes=['c11.inflight_tx_proofs', 'c11.inflight_header_proofs', 'c11.tx_proofs', 'c11.tsc_proofs', 'c11.header_proofs', 'backup_blocks'],
)
