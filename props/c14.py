from props.compaction import FAMILY  # noqa: F401

CHECK = dict(
    property='C14', level='fault_enumeration',
    families=[('compaction', 1.0)],
    budget=dict(quick=55, thorough=900), max_runs=dict(quick=100_000, thorough=5_000_000),
    rule=('each evaluation = one simulated run: an index built by the real server with flushes at '
          'scheduler-chosen instants (row size knob 2..50 entries or production, so that script hashes have '
          'one to dozens of rows, some longer than a compacted row), cleanly shut down - or, in a fifth of the runs, '
          'killed between a history flush and the matching UTXO flush (the histories such a database stands for '
          'are the rows up to the UTXO flush count); then 1-3 runs of the '
          'real electrumx_compact_history.compact_history() end to end or of its loop with batch limits from '
          '"one prefix per batch" to "everything in one", each killed at the (k+1)-th durable operation (each '
          'batch commit, the final set_flush_count put), failing with a disk-full error (ENOSPC, nothing of the '
          'operation applied) at one durable operation, stopped after batch k, or completed; resumed or '
          'abandoned; after every step the raw history rows of every script hash must concatenate to exactly '
          'the tx numbers recorded before; then the server is started (abandoned-then-keep-indexing only where '
          'no script hash has more compacted rows than the flush count, as the property restricts; excluded '
          'cases are counted) and indexes new blocks and reorganisations, audited against RefIndex; in half of '
          'the runs one or two further rounds follow (clean stop, new snapshot, the tool again - e.g. completing '
          'a compaction abandoned before the server ran - server, blocks, audit). '
          'non-trivial = a compaction ran (done / crashed / stopped) and the invariance oracle was evaluated'),
    assumptions=['a simulated plyvel module stands in for the LevelDB engine (batches atomic)', 'the tool is loaded from the working tree with '
                 'SourceFileLoader and run on a fresh simulated loop like a separate process'],
    required_probes=['c14.compact.done', 'c14.compact.crashed', 'c14.compact.stopped',
                     'c14.server_started_after.done', 'c14.server_started_after.crashed', 'c14.crash.commit',
                     'c14.crash.put'],
)
