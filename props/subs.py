from props.server import SUBS as FAMILY  # noqa: F401
