from props.blockstream import FAMILY  # noqa: F401

CHECK = dict(
    property='C13', level='exploration',
    families=[('blockstream', 1.0)],
    budget=dict(quick=25, thorough=600), max_runs=dict(quick=400_000, thorough=20_000_000),
    rule=('each evaluation = one generated block written to the simulated disk and streamed by the '
          'real OnDiskBlock: mode sweep = every chunk size from 9 bytes to beyond the block (all '
          'alignments) for blocks < 1.5 kB, sampled sizes otherwise, forward and reverse, incl. a '
          'transaction larger than the chunk at position 0 / middle / last and varint-boundary '
          'transactions; mode eof = the file cut at an arbitrary byte (interrupted download): only a '
          'prefix of the true transactions may be yielded, then an exception; mode tx = round trip, '
          'hash span and every truncation point of each transaction. chunk_size is additionally a '
          'per-run knob of every index family. distinct = distinct (mode, ntx, big, position, '
          'chunk) shapes; all are non-trivial'),
    assumptions=['only the stream/EOF clauses are simulation; the round-trip clause is a pure '
                 'function checked as a by-product (DESIGN.md section 9)'],
)
