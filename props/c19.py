from props.peers import FAMILY  # noqa: F401

CHECK = dict(
    property='C19', level='exploration',
    families=[('peers', 1.0)],
    budget=dict(quick=55, thorough=900), max_runs=dict(quick=50_000, thorough=2_000_000),
    rule=('servers that never answer one request of the handshake (also withholding the header while on another fork) and servers that answer every request after 18-28 s; servers that answer one request of the verification handshake with a JSON-RPC error or an invalid response, servers that turn bad later, lists sampled seconds apart, no listed peer may carry the server\'s own bad flag; each evaluation = one simulated run of the real server with PEER_DISCOVERY=on and a population of 6-24 '
          'model remote servers on the simulated network (correct, wrong genesis, wrong height, wrong header, not '
          'in own host list, garbage replies, bad version reply, refusing, hanging; IP-literal / host-name / onion '
          'hosts; public addresses sharing and not sharing /16 and /56 buckets, private, loopback, link-local, '
          'CGNAT 100.64/10, multicast, unspecified, documentation ranges; invalid host names) discovered through '
          'the real paths (coin seed list, server.peers.subscribe gossip, server.add_peer announcements from the '
          'peer\'s own address incl. hostile feature dictionaries, admin add_peer), with peers going down / up, '
          'host names re-resolving into a crowded /16, wall-clock steps of -2h..+24h, with and without the fake Tor '
          'proxy, over 1-14 simulated hours. At scheduler-chosen instants PeerManager.on_peers_subscribe is called '
          'for tor and non-tor requesters: every tuple is an own identity verified within 3 h or a model peer that '
          'is a correct server, completed a correct handshake within 3 h of the simulated wall clock, and is public '
          'by an independent restatement (RefPeers); <= 2 clearnet peers per /16 (/56) bucket; onion peers <= 50 '
          '(tor) / max(10, n/4). By-product probe of the announced-feature clause (pure): ports valid or absent, '
          'public only if RefPeers agrees. non-trivial = >= 1 peer was advertised and judged'),
    assumptions=['remote peers, DNS, the SOCKS proxy and TCP are models; TLS is not simulated (an SSL connection is '
                 'a plain simulated stream)', 'the announced-feature clause is a pure function (DESIGN.md section 9)'],
    required_probes=['c19.clearnet_listed', 'c19.onion_listed', 'c19.clock_jump', 'c19.dns_moved', 'c19.announcements'],
)
