from props.reorg import SHUTDOWN as FAMILY  # noqa: F401

CHECK = dict(
    property='C06', level='exploration',
    families=[('shutdown', 1.0)],
    budget=dict(quick=50, thorough=900), max_runs=dict(quick=200_000, thorough=5_000_000),
    rule=('runs use 1-3 daemon URLs; one motif shuts the server down during an outage of all / one URL (down, warming up, refusing) after retries have backed off and failed over; each evaluation = one simulated run of the real server (initial sync, caught up, natural and '
          'forced reorgs, cache-pressure flushes) with the real shutdown path (SIGTERM handler -> '
          'shutdown_event -> server_task.cancel()) fired at the (skip+1)-th scheduling step at which the '
          'server is in a chosen phase (block advance in flight, flush in flight inside / outside the '
          'state lock, backup in flight, daemon request in flight, idle, other job, any), with '
          'thread switches at every storage seam; after the process exits the executor is drained as '
          'asyncio.run() does, the durable state is reopened like a fresh process and audited against a '
          'clean index of the stored tip (UTXOs, histories, tx map, headers, raw tables), and the stored '
          'height must equal the height the block processor had completed; then the server is restarted, '
          'caught up and audited again. non-trivial = the cancel landed while >= 1 worker job was in '
          'flight and a reopen audit completed; distinct = distinct interleaving signature'),
    assumptions=['a simulated plyvel module (under the real LevelDB class of electrumx.server.storage) and SimFS stand in for the LevelDB engine and the file system', 'process exit = asyncio.run() '
                 'epilogue (cancel leftovers, drain executor threads)',
                 'a SIGTERM before the handler is installed kills the process (default disposition)'],
    required_probes=['sigterm.phase.advance', 'sigterm.phase.advance_nonconnecting', 'sigterm.phase.flush_locked',
                     'sigterm.phase.backup', 'sigterm.phase.idle', 'sigterm.phase.fetch'],
)
