"""Family `limits` (C17): replies stay within the advertised size limits.  Two motifs inside the
full-server simulation: a long thin chain with block.headers grids around the chain end, the 2016 cap
and the checkpoint bounds, asked while the tip still moves; and one heavy script whose confirmed
history is grown by real blocks through limit-1, limit, limit+1 (limit = MAX_SEND // 99) while a
client is subscribed to it and others query it (cache hit and miss paths).  DESIGN.md 7/C17."""
import hashlib
import random
import struct

from props.common import swarm_knobs
from props.server import ClientDriver, SubsFamily, RefMempool
from sim.chaingen import (Block, Tx, ZERO32, P2PKH, RefIndex, hashx, scripthash_hex, hex_hash,
                          merkle_root, merkle_fold)

X = P2PKH[5]
XSH = scripthash_hex(X)
MAX_CHUNK = 2016


class LimitsDriver(ClientDriver):

    def op_thin(self, op):
        """Extend the daemon's chain by n coinbase-only blocks."""
        w = self.w
        rng = self.rng_for(op)
        tip = w.daemon.tip
        for _ in range(op['n']):
            w.gen.nonce += 1
            cb = Tx([(ZERO32, 0xffffffff, struct.pack('<IQ', tip.height + 1 if tip else 0, w.gen.nonce),
                      0xffffffff)], [(50, P2PKH[rng.randrange(3)])], locktime=w.gen.nonce)
            tip = w.tree.add(Block(tip, [cb], w.gen.nonce))
        # views of a 2000-block chain are never needed: set the tip without mempool bookkeeping
        w.daemon.tip = tip
        w.daemon._chain = tip.branch()
        w.daemon.version += 1
        for b in w.daemon._chain[-op['n']:]:
            for t in b.txs:
                w.daemon.known_txs[t.hash] = t
        self.hmax = max(getattr(self, 'hmax', -1), tip.height)

    def op_thin_fork(self, op):
        """Replace the last `depth` thin blocks by depth+1 others."""
        w = self.w
        chain = w.daemon.chain()
        depth = min(op['depth'], w.k['reorg_limit'], len(chain) // 2)
        base = chain[len(chain) - 1 - depth]
        w.daemon.tip = base
        w.daemon._chain = base.branch()
        self.op_thin(dict(n=depth + 1, seed=op['seed']))
        self.probe('c17.thin_fork')
        # a slow daemon keeps the window between the last backup and the first re-indexed block open
        self.saved_latency = w.dnet.latency
        w.dnet.latency = (0.3, 2.5)

    def op_headers_window(self, op):
        """Headers requests spanning the tip, repeated while the reorganisation is in progress."""
        w = self.w
        d = w.daemon
        rng = random.Random(op['seed'])
        c = self.client(0)
        if not self.ensure_connected(c):
            return
        h0 = w.server.db.state.height
        # wait until a block has been undone (the live end of the headers file moved down)
        if w.run(lambda: w.server is not None and w.server.db.state.height < h0, 60.0) == 'pred':
            self.probe('c17.window_entered')
        for _ in range(40):
            if w.server is None:
                return
            h = w.server.db.state.height
            s = max(0, h - rng.choice([0, 1, 2, 5, 30]))
            n = rng.choice([1, 3, 10, 60, 3000])
            r = self.ask(c, 'blockchain.block.headers', [s, n])
            self.probe('c17.headers_window_requests')
            if r is not None and 'result' in r:
                res = r['result']
                nhex = len(res['hex']) // 160
                if res['count'] != nhex:
                    self.violate('C17', 'headers.count_untruthful', f'({s},{n}) during a reorganisation: count '
                                 f'{res["count"]} but {nhex} headers in hex')
                if nhex > min(n, MAX_CHUNK):
                    self.violate('C17', 'headers.more_than_requested', f'({s},{n}): {nhex}')
            w.run(None, rng.choice([0.0, 0.0, 0.05, 0.3]))
            if w.caught_up() and rng.random() < 0.3:
                break
        if getattr(self, 'saved_latency', None):
            w.dnet.latency = self.saved_latency

    def quiesce(self, limit=None):
        return super().quiesce(limit or 3000.0)

    def op_headers_grid(self, op):
        w = self.w
        d = w.daemon
        rng = random.Random(op['seed'])
        c = self.client(0)
        if not self.ensure_connected(c):
            return
        chain = d.chain()
        tip = d.height
        hashes = [b.hash for b in chain]
        starts = [0, 1, max(0, tip - MAX_CHUNK - 1), max(0, tip - MAX_CHUNK), max(0, tip - MAX_CHUNK + 1),
                  max(0, tip - 5), tip, tip + 1, tip + 10] + [rng.randrange(0, tip + 3) for _ in range(4)]
        counts = [0, 1, 5, MAX_CHUNK - 1, MAX_CHUNK, MAX_CHUNK + 1, 3000, 10 ** 6] + [rng.randrange(0, 5000)
                                                                                 for _ in range(3)]
        grid = [(s, n, cp) for s in starts for n in counts for cp in (0,)]
        grid = rng.sample(grid, min(len(grid), op.get('n', 40)))
        for s, n in [(rng.choice(starts), rng.choice(counts)) for _ in range(op.get('ncp', 12))]:
            grid.append((s, n, rng.choice([tip, tip, max(1, tip - 1), tip + 1, 1, max(1, s + 3),
                                           max(1, min(tip, s + MAX_CHUNK + 20))])))
        for s, n, cp in grid:
            stable0 = (w.server is not None and w.server.db.state.height == d.height, d.height)
            r = self.ask(c, 'blockchain.block.headers', [s, n, cp] if cp else [s, n])
            if w.server is None:
                return
            # completeness / content are judged only when the index was at the daemon's tip for
            # the whole request; the cap and the truthful count are judged always
            stable = stable0[0] and stable0 == (w.server.db.state.height == d.height, d.height)
            self.probe('c17.headers_requests')
            # the tip may have moved while asking: judge against the chain as it is now
            chain = d.chain()
            tipn = d.height
            avail = max(0, min(tipn, w.server.db.state.height) + 1 - s)
            if r is None:
                self.violate('C17', 'headers.no_reply', f'({s},{n},{cp})')
                continue
            exp_count_hi = max(0, min(n, MAX_CHUNK, max(0, tipn + 1 - s)))
            if 'error' in r:
                # only a checkpoint outside [last returned height, tip] may be refused
                last = s + min(n, MAX_CHUNK, avail) - 1
                if cp and not (last <= cp <= tipn) or (cp and avail and min(n, MAX_CHUNK) == 0):
                    self.probe('c17.headers_cp_refused')
                    continue
                if not stable:
                    continue
                self.violate('C17', 'headers.error', f'({s},{n},{cp}) tip {tipn}: {str(r["error"])[:100]}')
                continue
            res = r['result']
            nhex = len(res['hex']) // 160
            if res['count'] != nhex:
                self.violate('C17', 'headers.count_untruthful', f'({s},{n},{cp}): count {res["count"]} but '
                             f'{nhex} headers in hex')
            if nhex > MAX_CHUNK or res.get('max') != MAX_CHUNK:
                self.violate('C17', 'headers.cap', f'({s},{n},{cp}): {nhex} headers returned, max field '
                             f'{res.get("max")}')
            if nhex > min(n, MAX_CHUNK):
                self.violate('C17', 'headers.more_than_requested', f'({s},{n},{cp}): {nhex}')
            if nhex < exp_count_hi and stable:
                self.violate('C17', 'headers.fewer_than_exist', f'({s},{n},{cp}) tip {tipn}: {nhex} < '
                             f'{exp_count_hi}')
            if res['hex'] != b''.join(b.header for b in chain[s:s + nhex]).hex() and stable:
                self.violate('C17', 'headers.content', f'({s},{n},{cp})')
            if cp and nhex and 'root' in res and stable and cp <= tipn:
                last = s + nhex - 1
                root = merkle_root([b.hash for b in chain[:cp + 1]])
                if bytes.fromhex(res['root'])[::-1] != root or merkle_fold(
                        chain[last].hash, [bytes.fromhex(x)[::-1] for x in res['branch']], last) != root:
                    self.violate('C17', 'headers.proof', f'({s},{n},{cp})')
                self.probe('c17.headers_with_proof')
            if nhex == MAX_CHUNK:
                self.probe('c17.headers_capped')

    # ---- heavy script --------------------------------------------------------------------------------
    def heavy_len(self):
        ref = RefIndex(self.w.daemon.chain(), self.w.k['activation'])
        return len(ref.history.get(hashx(X), [])), ref

    def op_heavy_grow(self, op):
        """Grow X's confirmed history to exactly `to` entries with chained self-spends."""
        if op.get('at'):
            self._bg(op['at'], lambda: self.op_heavy_grow(dict(op, at=0)))
            return
        if op.get('arm'):
            self.flush_probe_armed = op['arm']
        w = self.w
        d = w.daemon
        cur = getattr(self, 'heavy_count', None)
        if cur is None:
            cur, _ref = self.heavy_len()
            self.heavy_op = None
        while cur < op['to']:
            tip = d.tip
            w.gen.nonce += 1
            cb = Tx([(ZERO32, 0xffffffff, struct.pack('<IQ', tip.height + 1, w.gen.nonce), 0xffffffff)],
                    [(5_000_000, X if self.heavy_op is None else P2PKH[0])], locktime=w.gen.nonce)
            txs = [cb]
            if self.heavy_op is None:
                self.heavy_op = (cb.hash, 0, 5_000_000)
                cur += 1
            m = min(op.get('per_block', 150), op['to'] - cur)
            for _ in range(m):
                h, i, v = self.heavy_op
                w.gen.nonce += 1
                t = Tx([(h, i, b'', 0xffffffff)], [(v - 1, X)], locktime=w.gen.nonce)
                txs.append(t)
                self.heavy_op = (t.hash, 0, v - 1)
                cur += 1
            blk = w.tree.add(Block(tip, txs, w.gen.nonce))
            d.set_tip(blk)
        self.heavy_count = cur
        self.hmax = max(getattr(self, 'hmax', -1), d.height)
        self.mark('heavy', cur)

    def op_heavy_storm(self, op):
        """The history of X asked for over and over while the blocks that take it across the limit are indexed and
        flushed: every reply in flight is judged (C17: never a truncated history)."""
        def go():
            c = self.client(op['c'])
            if not self.ensure_connected(c):
                return
            srv = self.w.server
            h0 = srv.db.state.height if srv is not None and srv.db is not None and srv.db.state is not None else -1
            self.probe('c17.inflight_history_requests')
            c.send('blockchain.scripthash.get_history', [XSH], cb=lambda rec: self.judge_heavy_reply(rec, h0))
        for i in range(op.get('rep', 1)):
            self._bg(op.get('at', 0.0) + i * op.get('every', 0.25), go)

    def judge_heavy_reply(self, rec, h0):
        if 'result' not in rec or rec.get('closed'):
            return
        limit = max(350000, self.w.k['max_send']) // 99
        n, ref = self.heavy_len()
        full = [dict(tx_hash=hex_hash(t), height=h) for t, h in ref.history.get(hashx(X), [])]
        conf = [x for x in rec['result'] if 'fee' not in x]
        c = len(conf)
        # (no lower bound from the height flushed when the request was sent: until the block's notification round has
        # invalidated it, the session manager's cache legitimately serves the complete history of the height before)
        self.probe('c17.inflight_history_replies')
        whole_blocks = c == len(full) or c == 0 or full[c]['height'] != full[c - 1]['height']
        if not (c < limit and conf == full[:c] and whole_blocks):
            self.violate('C17', 'inflight.history_truncated', f'a history request in flight while blocks were indexed '
                         f'was answered with {c} confirmed entries: not the complete history of the script at any '
                         f'height (flushed height when sent: {h0}, entries now {n}, limit {limit})')

    def true_status(self, ref):
        hist = ref.history.get(hashx(X), [])
        s = ''.join(f'{hex_hash(t)}:{h:d}:' for t, h in hist)
        return hashlib.sha256(s.encode()).hexdigest() if s else None

    def op_heavy_check(self, op):
        w = self.w
        limit = max(350000, w.k['max_send']) // 99
        n, ref = self.heavy_len()
        truth = self.true_status(ref)
        exp_hist = [dict(tx_hash=hex_hash(t), height=h) for t, h in ref.history.get(hashx(X), [])]
        sub = self.client(0)
        self.probe('c17.heavy_checks')
        self.probe('c17.heavy.' + ('below' if n < limit else 'at' if n == limit else 'above'))
        # the subscribed client: no non-null status other than the true full status, ever
        # the true statuses of the script at every height of the (fork-free) chain, not only at the quiescence points
        hist = ref.history.get(hashx(X), [])
        for j in range(1, len(hist) + 1):
            if j == len(hist) or hist[j][1] != hist[j - 1][1]:
                txt = ''.join(f'{hex_hash(t)}:{h:d}:' for t, h in hist[:j])
                self.heavy_truths.add(hashlib.sha256(txt.encode()).hexdigest())
        for ev, method, params in sub.notifs:
            if method == 'blockchain.scripthash.subscribe' and params[0] == XSH and params[1] is not None \
                    and params[1] not in self.heavy_truths:
                self.violate('C17', 'subscription.truncated_status', f'the subscriber received status '
                             f'{params[1][:16]} which is not the status of the full history at any height '
                             f'(history {n}, limit {limit})')
        # a refused subscription must not exist: no notification for the script may follow a refusal
        for c, ev0 in list(getattr(self, 'refused', {}).items()):
            late = [e for e in c.notifs if e[0] > ev0 and e[1] == 'blockchain.scripthash.subscribe'
                    and e[2] and e[2][0] == XSH]
            if late and c.connected:
                self.violate('C17', 'subscription.not_dropped', f'client {c.name} was refused the subscription '
                             f'("history too large") but later received {len(late)} notification(s) for that '
                             f'script: {late[0][2][1]}')
        fresh = w.new_client('fresh17', addr=('8.7.7.7', None))
        self.ensure_connected(fresh)
        for c in (self.client(1), fresh):
            if not self.ensure_connected(c):
                continue
            for attempt in range(2):       # second call: served from the cache
                r = self.ask(c, 'blockchain.scripthash.get_history', [XSH], timeout=400.0)
                if n < limit:
                    if r is None or 'result' not in r or r['result'] != exp_hist:
                        self.violate('C17', 'history.below_limit', f'{c.name} attempt {attempt}: history of '
                                     f'{n} < limit {limit} not returned in full: '
                                     f'{len(r["result"]) if r and "result" in r else r}')
                else:
                    if r is None or 'error' not in r or 'too large' not in str(r['error']):
                        got = len(r['result']) if r and 'result' in r else r
                        self.violate('C17', 'history.truncated', f'{c.name} attempt {attempt}: history of {n} '
                                     f'>= limit {limit} answered with {got} entries instead of the '
                                     '"history too large" error')
            r = self.ask(c, 'blockchain.scripthash.subscribe', [XSH], timeout=400.0)
            if n < limit:
                if r is None or r.get('result') != truth:
                    self.violate('C17', 'subscribe.below_limit', f'{c.name}: {str(r)[:80]}')
            elif r is None or 'error' not in r:
                self.violate('C17', 'subscribe.truncated_status', f'{c.name}: subscribe to a script with a '
                             f'history of {n} >= limit {limit} answered {str(r)[:80]}')
            elif c is not fresh:
                self.refused = getattr(self, 'refused', {})
                self.refused.setdefault(c, r['ev'])
        fresh.disconnect()

    def check_subscribers(self, refmp):
        # script hashes dropped by the history-size rule are not judged by the C07 oracle
        for c in self.cl:
            c.subscribed.discard(XSH)
        super().check_subscribers(refmp)

    def op_heavy_sub(self, op):
        c = self.client(0)
        if self.ensure_connected(c):
            self.ask(c, 'blockchain.scripthash.subscribe', [XSH], timeout=400.0)
        self.heavy_truths = getattr(self, 'heavy_truths', set())

    def op_settle(self, op):
        super().op_settle(op)
        if hasattr(self, 'heavy_truths'):
            _n, ref = self.heavy_len()
            self.heavy_truths.add(self.true_status(ref))

    def op_mine(self, op):
        super().op_mine(op)

    def setup(self):
        super().setup()
        self._orig_flush_utxo_db = None
        if self.w.k.get('seam_between_commits'):
            # a pre-emption point between the history commit and the UTXO batch of one flush (a thread can be
            # descheduled there; the storage seams alone put none between the commit and the state assignment)
            from electrumx.server import db as dbmod
            orig = self._orig_flush_utxo_db = dbmod.DB.flush_utxo_db
            sim = self.w.sim

            drv = self

            def flush_utxo_db(db, flush_data):
                if getattr(drv, 'flush_probe_armed', 0) > 0:
                    # one history request - a cache miss - sent a moment after this point was reached: if the thread
                    # is parked here it arrives between the two commits
                    drv.flush_probe_armed -= 1
                    sim.at(0.05, lambda: drv.op_heavy_storm(dict(op='heavy_storm', c=3, rep=1, at=0.0)))
                sim.seam('flush.between_commits')
                return orig(db, flush_data)
            dbmod.DB.flush_utxo_db = flush_utxo_db

    def teardown(self):
        if getattr(self, '_orig_flush_utxo_db', None) is not None:
            from electrumx.server import db as dbmod
            dbmod.DB.flush_utxo_db = self._orig_flush_utxo_db
        super().teardown()
        p = self.res.probes
        self.res.nontrivial = bool(p.get('c17.headers_requests') or p.get('c17.heavy_checks'))


class LimitsFamily(SubsFamily):
    name = 'limits'
    driver = LimitsDriver
    fam = 'limits'

    def gen(self, rng, tier, prop):
        k = swarm_knobs(rng, faults=False)
        k['file_size'] = rng.choice([None, 4000, 16000, 65600])    # header file boundaries inside a 2 000-block chain
        k.update(stall_p=0.0, line_p=0.0, chunk_size=25_000_000, activation=5, preempt=rng.random() < 0.5,
                 daemon_latency=(0.0, 0.001), prefetch=rng.choice([10, 100]), reorg_limit=10, cache_mb=1200)
        if rng.random() < 0.45:
            # long thin chain
            n = rng.choice([2030, 2100, 2200])
            plan = [dict(op='thin', n=n, seed=rng.getrandbits(32), keep=True), dict(op='start', keep=True),
                    dict(op='settle', keep=True), dict(op='headers_grid', seed=rng.getrandbits(32), n=40, ncp=14)]
            # while the tip still moves
            plan.append(dict(op='thin', n=rng.randint(1, 30), seed=rng.getrandbits(32)))
            plan.append(dict(op='headers_grid', seed=rng.getrandbits(32), n=15, ncp=6))
            if rng.random() < 0.6:
                # ... and while blocks are being undone (stale bytes beyond the live end of the file)
                plan.append(dict(op='settle'))
                plan.append(dict(op='thin_fork', depth=rng.choice([1, 2, 3, 5]), seed=rng.getrandbits(32)))
                plan.append(dict(op='headers_window', seed=rng.getrandbits(32)))
            plan.append(dict(op='settle'))
            plan.append(dict(op='headers_grid', seed=rng.getrandbits(32), n=20, ncp=10))
            return dict(family='limits', knobs=k, plan=plan)
        k['max_send'] = rng.choice([0, 350_000, 350_098, 400_000])
        limit = max(350_000, k['max_send']) // 99
        storm = rng.random() < 0.5
        plan = [dict(op='thin', n=3, seed=1, keep=True), dict(op='start', keep=True),
                dict(op='heavy_grow', to=limit - (rng.choice([2, 3, 40]) if not storm else 40), keep=True),
                dict(op='settle', keep=True), dict(op='heavy_sub'), dict(op='settle'),
                dict(op='heavy_check')]
        opq = rng.random() < 0.5        # the operator looks the script up now and then (`query`, its own limit)
        if storm:
            # motif: flushes are slow; a block that adds to the script's history is indexed and notified (the cached
            # history is invalidated and nobody asks again), then the block that takes the history to or across the
            # limit arrives, and single requests for the history - cache misses - land while it is being flushed
            # (between the history commit and the UTXO commit) ...
            k['stall_boost'] = ('flush_dbs', rng.choice([0.6, 0.9]))
            k['stall_max'] = rng.choice([3.0, 6.0])
            k['preempt'] = True
            k['seam_between_commits'] = True
            # (the subscriber leaves: a notification round computes the status of every subscribed script and so
            # fills the history cache again at once)
            plan.append(dict(op='c_disconnect', c=0))
            plan.append(dict(op='c_disconnect', c=1))       # (heavy_check subscribed it)
            plan.append(dict(op='wait', dt=1.0))
            plan.append(dict(op='heavy_grow', to=limit - 2))
            plan.append(dict(op='settle'))          # notified: the cached history is gone, and nobody asks
            plan.append(dict(op='c_connect', c=3))
            plan.append(dict(op='heavy_grow', to=limit + rng.choice([0, 1, 30]), arm=1))
            plan.append(dict(op='wait', dt=25.0))
            plan.append(dict(op='settle'))
            plan.append(dict(op='heavy_check'))
            # ... and further on it is asked for over and over while more blocks arrive
        for to in (limit - 1, limit, limit + 1, limit + rng.choice([2, 30])):
            if rng.random() < 0.85:
                if storm:
                    for c in (1, 2):
                        plan.append(dict(op='heavy_storm', c=c, at=round(rng.uniform(0.02, 0.5), 2),
                                         rep=rng.choice([40, 80]), every=rng.choice([0.1, 0.25])))
                plan.append(dict(op='heavy_grow', to=to))
                plan.append(dict(op='settle'))
                if opq and rng.random() < 0.7:
                    plan.append(dict(op='admin_query', script=X.hex(), limit=rng.choice([10, 1000, 1000, 5000])))
                    plan.append(dict(op='wait', dt=rng.choice([2.0, 10.0])))
                plan.append(dict(op='heavy_check'))
        return dict(family='limits', knobs=k, plan=plan)


FAMILY = LimitsFamily()
