from props.server import MEMPOOL as FAMILY  # noqa: F401

CHECK = dict(
    property='C08', level='exploration',
    families=[('mempool', 1.0)],
    budget=dict(quick=55, thorough=900), max_runs=dict(quick=200_000, thorough=5_000_000),
    rule="client history / unspent request storms on worker threads while the tracker looks confirmed outputs up; a child of a tip-block transaction looked up between the undoing of the tip and the indexing of its equal-height replacement; motifs: a daemon that is merely slow (one getrawtransaction batch taking 20-150 s while nothing changes), more than 200 new transactions fetched in batches answered after different long delays; in 10 % of the runs the view is judged as real client sessions are told it at quiescence (family stale: unconfirmed part of get_history / get_mempool, unconfirmed balance, unconfirmed outputs of listunspent for every script, after blocks and reorgs); otherwise each evaluation = one simulated run of the real server (sessions idle) through sequences of daemon mempool states: arrivals of 1-30 transactions incl. chains of unconfirmed parents/children delivered across refreshes and 200-tx fetch batches in set order, evictions with descendants, confirmations by real blocks with partial inclusion, forks returning or dropping transactions. Monitor at every on_mempool hand-over: the refresh is synchronised when the daemon's (height, mempool) did not change since the refresh's getrawmempool and the index is at that height; then for every spendable-form pool script balance_delta, transaction_summaries (multiset of hash, fee, flag), unordered_UTXOs equal RefMempool and actual-spends <= potential_spends <= all prevouts of related txs; always: every script whose set of unconfirmed txids changed in the tracker's own view since the previous hand-over is in the touched set. non-trivial = a synchronised refresh with a non-empty mempool was compared",
    assumptions=['model bitcoind / Electrum clients / TCP / LevelDB / file system are simulator models; '
                 'everything of ElectrumX and aiorpcX runs real', 'session cost throttling disabled '
                 '(COST_*_LIMIT=0) so that oracle sweeps are not throttled',
                 'mempool comparisons leave out the unspendable script forms (OP_RETURN / OP_FALSE OP_RETURN)'],
    required_probes=['refresh.synchronised.nonempty', 'mp.evicted', 'backup_blocks'],
)
