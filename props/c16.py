from props.hostile import FAMILY  # noqa: F401

CHECK = dict(
    property='C16', level='exploration',
    families=[('hostile', 0.7), ('proofs', 0.1), ('stale', 0.2)],
    budget=dict(quick=55, thorough=900), max_runs=dict(quick=100_000, thorough=5_000_000),
    rule=('half of the runs configure DROP_CLIENT; server.version is mostly asked on a fresh session; requests refused by the server\'s own request time-out (slow history reads, REQUEST_TIMEOUT 2-5 s) must not add a subscription; in 30 % of the runs (families proofs, stale) well-formed requests of all kinds race with blocks, '
          'reorganisations, mempool changes and slow disk reads, and no reply may carry INTERNAL_ERROR; otherwise '
          'each evaluation = one simulated run of the real server with a populated index, live good clients with '
          'subscriptions and a mempool, in which a hostile client sends 60-300 requests one at a time through the '
          'real framer / JSON-RPC / dispatch path: every protocol method (and an unknown one) with one argument '
          'replaced by a value of a 52-value corpus of JSON shapes (null, booleans, negative / 2**31 / 2**63 / '
          '10**30 / 10**400 integers, floats, NaN, +-Infinity, 1e999, empty / odd-length / 63-64-65-digit / '
          'whitespace-separated hex, NUL and non-ASCII and lone-surrogate strings, 10k-char string, nested '
          'containers of depth 50 ...), positional and named, too few / too many arguments, random tuples, a '
          'params member of the wrong shape, and generated server.add_peer feature dictionaries with hostile host '
          'names and port values. Oracle: every request gets a reply (or a deliberate disconnect); no reply has '
          'the JSON-RPC INTERNAL_ERROR code; a refused request leaves the session\'s hashX_subs, mempool_statuses, '
          'subscribe_headers and the history cache keys unchanged; a script hash / tx hash argument that is not '
          'exactly 64 hex digits is never answered with a result; afterwards the good clients\' subscriptions '
          '(C07 oracle) and a full answer sweep by an old and a fresh client (C10 oracle) still hold. '
          'This is input-space exploration delivered through the simulated server (DESIGN.md section 9). '
          'non-trivial = >= 20 hostile requests answered; distinct = distinct interleaving signature'),
    assumptions=['the input exploration itself is corpus enumeration + seeded random combination, not simulation; '
                 'the simulator contributes the live populated server, the real transport path and the isolation '
                 'check against other clients', 'the resolver runs the real socket.getaddrinfo argument '
                 'conversion with AI_NUMERICHOST and a simulated name table'],
    required_probes=['c16.error_replies', 'c16.result_replies', 'c10.sweeps'],
)
