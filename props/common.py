"""Shared pieces of the property families: knob sampling (swarm) and the Family base class."""
import random

from sim.plan import Driver


def swarm_knobs(rng, *, reorg=False, small_chunks=True, faults=True):
    """Per-run configuration drawn first (DESIGN.md 3.1/3.6)."""
    k = {}
    k['prefetch'] = rng.choice([1, 2, 3, 3, 5, 10, 100])
    k['reorg_limit'] = rng.choice([1, 2, 3, 5, 10, 10, 50, 200])
    k['chunk_size'] = rng.choice([9, 17, 64, 200, 1000, 4096, 25_000_000, 25_000_000]) \
        if small_chunks else 25_000_000
    k['cache_mb'] = rng.choice([0, 1, 2, 3, 4, 5, 5, 1200])
    k['stall_p'] = rng.choice([0.0, 0.0, 0.01, 0.05])
    k['preempt'] = rng.random() < 0.85
    k['line_p'] = rng.choice([0.0] * 9 + [0.01, 0.1])
    k['loop_seam_p'] = rng.choice([0.0, 0.0, 0.3])
    k['daemon_latency'] = rng.choice([(0.0005, 0.05), (0.0, 0.001), (0.01, 1.0), (0.0005, 6.0)])
    k['fault_rate'] = rng.choice([0.0, 0.0, 0.0, 0.02, 0.1]) if faults else 0.0
    k['orphans_return'] = rng.random() < 0.6
    k['txindex'] = rng.random() < 0.5
    k['max_hist_row'] = rng.choice([None, None, 2, 3, 7, 50])
    k['urls'] = rng.choice([1, 1, 1, 2, 3])        # daemon URLs (all front the same chain)
    # physical files of the meta LogicalFiles: multiples of every record size (80, 32, 8), as the code's own 16 MB /
    # 2 MB are - a record never straddles two files, a read of several records does
    k['file_size'] = rng.choice([None, None, None, 160, 960, 4000, 65600])
    k['queue_p'] = rng.choice([0.0, 0.0, 0.0, 0.0, 0.03, 0.15])                   # jobs waiting in the executor's queue
    return k


def ntx_list(rng, n, heavy=False):
    out = []
    for _ in range(n):
        r = rng.random()
        if r < 0.15:
            out.append(0)
        elif r < 0.8:
            out.append(rng.randint(1, 8))
        elif r < 0.97 or not heavy:
            out.append(rng.randint(9, 40))
        else:
            out.append(rng.randint(200, 320))
    return out


class Family:
    name = None
    driver = Driver

    def gen(self, rng, tier, prop):
        raise NotImplementedError

    def execute(self, case, chooser, trace=False, logs=False):
        return self.driver(case, chooser, trace=trace, logs=logs).run()

    def describe(self, case):
        return dict(knobs=case.get('knobs'), plan=case['plan'][:14],
                    plan_len=len(case['plan']))

    def known_finding(self, violation, res):
        return None

    def simplify(self, case):
        """Candidate simpler cases for the minimiser (each tried once, kept if it still fails)."""
        k = case.get('knobs') or {}
        for key, val in (('stall_p', 0.0), ('line_p', 0.0), ('loop_seam_p', 0.0),
                         ('fault_rate', 0.0), ('daemon_latency', (0.0005, 0.05)),
                         ('chunk_size', 25_000_000), ('max_hist_row', None)):
            if key in k and k[key] != val:
                yield dict(case, knobs=dict(k, **{key: val}))
