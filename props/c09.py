from props.server import MEMPOOL as FAMILY  # noqa: F401

CHECK = dict(
    property='C09', level='exploration',
    families=[('mempool', 1.0)],
    budget=dict(quick=55, thorough=900), max_runs=dict(quick=200_000, thorough=5_000_000),
    rule='motifs: two fetch batches answered after different long delays with a block and evictions in between; same family as C08 with daemon events (block, fork, eviction, arrival) and index flushes placed by the scheduler inside refreshes (background events at random virtual offsets while requests are in flight, daemon latencies up to seconds, daemon faults, thread stalls). Monitors at every hand-over and at quiescence: the server has not died from an exception of keep_synchronized; every recorded tx has input (script hash, value) pairs equal to the global truth of its prevouts and fee = max(0, in - out); hashXs is the exact inverse of txs; at the next synchronised refresh the C08 exactness holds (bounded liveness: a synchronised refresh must occur in the fault-free tail). non-trivial = a synchronised non-empty refresh was compared',
    assumptions=['model bitcoind / Electrum clients / TCP / LevelDB / file system are simulator models; '
                 'everything of ElectrumX and aiorpcX runs real', 'session cost throttling disabled '
                 '(COST_*_LIMIT=0) so that oracle sweeps are not throttled',
                 'mempool comparisons leave out the unspendable script forms (OP_RETURN / OP_FALSE OP_RETURN)'],
    required_probes=['refresh.synchronised.nonempty', 'refresh.unsynchronised'],
)
