from props.server import STALE as FAMILY  # noqa: F401
