#!/bin/bash
# Offline setup: nothing to build; verify the interpreter and its packages.
set -e
/venv/bin/python - <<'PY'
import sys
assert sys.version_info[:2] >= (3, 10)
import aiorpcx, aiohttp, sortedcontainers, pylru, attr, plyvel  # noqa: F401
sys.path.insert(0, '/repo')
import electrumx  # noqa: F401
print('setup ok', sys.version.split()[0], 'electrumx', electrumx.version)
PY
