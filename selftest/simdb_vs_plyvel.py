"""Storage-model validation: random operation sequences (puts, gets, prefix / reverse iterators
created before and consumed after writes, batches with delete-then-put of one key, batches left by an
exception - with and without plyvel's transaction flag -, reopen) on the simulated plyvel module and on the
real one, both underneath the LevelDB class of electrumx.server.storage, the real one in a scratch
directory outside /repo and /verif; all results must be identical.  Also cross-checks RefIndex against
the independently written RefIndex2.  Usage: simdb_vs_plyvel.py [nseq]"""
import os
import random
import shutil
import sys
import tempfile
import types

sys.path.insert(0, os.environ.get('VERIF_REPO', '/repo'))
sys.path.insert(0, os.path.dirname(os.path.dirname(os.path.abspath(__file__))))
import logging  # noqa: E402
logging.disable(logging.CRITICAL)
from sim.kernel import Sim, Chooser  # noqa: E402
from sim import seams  # noqa: E402
import electrumx.server.storage as storage  # noqa: E402


def main():
    nseq = int(sys.argv[1]) if len(sys.argv) > 1 else 150
    real_os = storage.os
    world = types.SimpleNamespace(sim=Sim(Chooser(0), preempt=False), store=seams.SimDBStore())
    world.sim.loop = types.SimpleNamespace(_ready=(), _stopping=False)
    LevelDB = storage.LevelDB
    LevelDB.import_module()
    real_plyvel = LevelDB.module
    fake_plyvel = seams.make_fake_plyvel(world)

    class SimDB(LevelDB):            # the same ElectrumX class on the simulated module
        module = fake_plyvel

        def __init__(self, name, for_sync):
            self.is_new = name not in world.store.dbs
            self.for_sync = for_sync or self.is_new
            self.open(name, create=self.is_new)
    assert LevelDB.module is real_plyvel and not hasattr(real_plyvel, '_world')
    scratch = tempfile.mkdtemp(prefix='verif-plyvel-')
    cwd = os.getcwd()
    bad = 0
    nops = 0
    try:
        os.chdir(scratch)
        for s in range(nseq):
            rng = random.Random(s)
            name = f'db{s}'
            a, b = SimDB(name, True), LevelDB(name, True)
            keys = [bytes([rng.randrange(4)]) * rng.randint(1, 3) + bytes([rng.randrange(6)]) for _ in range(12)]
            pending = []
            for _ in range(rng.randint(20, 80)):
                nops += 1
                r = rng.random()
                if r < 0.25:
                    k, v = rng.choice(keys), bytes([rng.randrange(256)]) * rng.randint(0, 4)
                    a.put(k, v)
                    b.put(k, v)
                elif r < 0.45:
                    k = rng.choice(keys)
                    if a.get(k) != b.get(k):
                        bad += 1
                        print('get differs', s, k)
                elif r < 0.6:
                    prefix = rng.choice([b'', bytes([rng.randrange(4)]), rng.choice(keys)[:2], b'\xff'])
                    rev = rng.random() < 0.5
                    pending.append((prefix, rev, a.iterator(prefix=prefix, reverse=rev),
                                    b.iterator(prefix=prefix, reverse=rev)))
                elif r < 0.75 and pending:
                    prefix, rev, ia, ib = pending.pop(rng.randrange(len(pending)))
                    if list(ia) != list(ib):
                        bad += 1
                        print('iterator differs', s, prefix, rev)
                elif r < 0.93:
                    ops = []
                    for _ in range(rng.randint(1, 6)):
                        k = rng.choice(keys)
                        if rng.random() < 0.4:
                            ops.append(('d', k, None))
                        else:
                            ops.append(('p', k, bytes([rng.randrange(256)])))
                        if rng.random() < 0.3:      # delete then put of one key, and the reverse
                            ops.append(('p', k, b'z') if ops[-1][0] == 'd' else ('d', k, None))
                    abort = rng.random() < 0.25
                    raw = rng.random() < 0.3      # plyvel's own default: transaction=False
                    for db in (a, b):
                        try:
                            with (db.db.write_batch() if raw else db.write_batch()) as batch:
                                for kind, k, v in ops:
                                    if kind == 'd':
                                        batch.delete(k)
                                    else:
                                        batch.put(k, v)
                                if abort:
                                    raise KeyError('abort')
                        except KeyError:
                            pass
                else:
                    a.close()
                    b.close()
                    a, b = SimDB(name, False), LevelDB(name, False)
                    pending = []
                    if a.is_new != b.is_new:
                        bad += 1
                        print('is_new differs', s)
            if list(a.iterator()) != list(b.iterator()):
                bad += 1
                print('final content differs', s)
            a.close()
            b.close()
    finally:
        os.chdir(cwd)
        shutil.rmtree(scratch, ignore_errors=True)
        storage.os = real_os
    # reference model cross-check
    from sim.chaingen import BlockTree, ChainGen, RefIndex, RefIndex2
    nref = 0
    for s in range(40):
        rng = random.Random(1000 + s)
        act = rng.randint(1, 20)
        tree = BlockTree(act)
        gen = ChainGen(tree)
        blk = None
        for _ in range(rng.randint(3, 25)):
            blk = gen.make_block(blk, rng, rng.randint(0, 12))
        r1, r2 = RefIndex(blk.branch(), act), RefIndex2(blk.branch(), act)
        u1 = {op: (h, v, ht) for op, (h, v, ht, _n) in r1.utxos.items()}
        h2 = {k: v for k, v in r2.history.items()}
        if u1 != r2.utxos or {k: sorted(v) for k, v in r1.history.items()} != {k: sorted(v) for k, v in h2.items()} \
                or any(r1.history[k] != h2[k] for k in r1.history):
            bad += 1
            print('RefIndex != RefIndex2 for chain seed', s)
        nref += 1
    print(f'simdb_vs_plyvel: {nseq} sequences, {nops} operations, {nref} reference cross-checks: {bad} differences')
    return 1 if bad else 0


if __name__ == '__main__':
    sys.exit(main())
