"""Determinism self-test: every seed run twice in this process and once more in a fresh
interpreter (optionally under another PYTHONHASHSEED to prove the guard matters) must give the
same event-log digest.  Usage: determinism.py <family,...> <nseeds> [--fresh] """
import json
import os
import random
import subprocess
import sys

sys.path.insert(0, os.environ.get('VERIF_REPO', '/repo'))
sys.path.insert(0, os.path.dirname(os.path.dirname(os.path.abspath(__file__))))
sys.setrecursionlimit(10000)
import logging  # noqa: E402
logging.disable(logging.CRITICAL)
from sim import runner  # noqa: E402


PROP = {'mempool': 'C09', 'merkle': 'C11'}


def digests(fams, seeds, prop='C01'):
    out = {}
    for fn in fams:
        fam = runner.load_family(fn)
        for s in seeds:
            rng = random.Random(s)
            case = fam.gen(rng, 'quick', PROP.get(fn, prop))
            r = runner.run_case(fam, case, seed=s)
            out[f'{fn}:{s}'] = (r.digest, len(r.choices), r.harness_error)
    return out


def main():
    fams = sys.argv[1].split(',')
    n = int(sys.argv[2])
    base = int(os.environ.get('VERIF_SEED', '1'))
    seeds = [runner.seed_for(base + 77, i) for i in range(n)]
    if '--child' in sys.argv:
        print(json.dumps(digests(fams, seeds)))
        return 0
    a = digests(fams, seeds)
    b = digests(fams, seeds)
    bad = [k for k in a if a[k] != b[k]]
    if '--fresh' in sys.argv:
        env = dict(os.environ, PYTHONHASHSEED='0')
        out = subprocess.run([sys.executable, __file__, sys.argv[1], sys.argv[2], '--child'],
                             capture_output=True, text=True, env=env, timeout=3600)
        c = {k: tuple(v) for k, v in json.loads(out.stdout.strip().splitlines()[-1]).items()}
        bad += [k for k in a if tuple(a[k]) != c.get(k)]
    herr = [k for k in a if a[k][2]]
    print(f'determinism: {len(a)} runs x2{" + fresh interpreter" if "--fresh" in sys.argv else ""}: '
          f'{len(bad)} divergent, {len(herr)} harness errors')
    for k in bad[:5]:
        print('  DIVERGENT', k, a[k], b[k])
    for k in herr[:3]:
        print('  HARNESS', k, a[k][2])
    return 1 if bad or herr else 0


if __name__ == '__main__':
    sys.exit(main())
