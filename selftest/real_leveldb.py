"""End-to-end cross-check of the storage model: index-family seeds re-run with the real LevelDB engine
and the real file system in a scratch directory outside /repo and /verif (clocks, daemon, network and
thread scheduling still simulated; no crashes, no storage pre-emption).  The audit against RefIndex must
be clean exactly as on SimDB/SimFS.  Usage: real_leveldb.py [nseeds]"""
import os
import random
import shutil
import sys
import tempfile

sys.path.insert(0, os.environ.get('VERIF_REPO', '/repo'))
sys.path.insert(0, os.path.dirname(os.path.dirname(os.path.abspath(__file__))))
sys.setrecursionlimit(10000)
import logging  # noqa: E402
logging.disable(logging.CRITICAL)
from sim import runner  # noqa: E402


def main():
    n = int(sys.argv[1]) if len(sys.argv) > 1 else 20
    bad = 0
    audits = 0
    cwd = os.getcwd()
    for famname, prop in (('index', 'C01'), ('reorg', 'C03')):
        fam = runner.load_family(famname)
        for i in range(n):
            seed = runner.seed_for(4242, i)
            case = fam.gen(random.Random(seed), 'quick', prop)
            case['plan'] = [o for o in case['plan'] if o['op'] not in ('restart',)]
            scratch = tempfile.mkdtemp(prefix='verif-leveldb-')
            try:
                case['knobs'].update(real_storage=scratch, preempt=False, stall_p=0.0, line_p=0.0, loop_seam_p=0.0)
                r = runner.run_case(fam, case, seed=seed)
                audits += r.probes.get('audits', 0)
                if r.violations or r.harness_error:
                    bad += 1
                    print(famname, seed, [repr(v)[:160] for v in r.violations[:2]], r.harness_error)
            finally:
                os.chdir(cwd)
                shutil.rmtree(scratch, ignore_errors=True)
    print(f'real_leveldb: {2 * n} runs on real LevelDB + real files, {audits} audits against RefIndex, {bad} bad')
    return 1 if bad else 0


if __name__ == '__main__':
    sys.exit(main())
