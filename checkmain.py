"""Command line of the checks.  Exit 0 = property held on everything explored; 1 = VIOLATION
line printed; 2 = harness error (never a verdict)."""
import argparse
import importlib
import json
import os
import sys

sys.path.insert(0, os.environ.get('VERIF_REPO', '/repo'))
sys.path.insert(0, os.path.dirname(os.path.abspath(__file__)))
sys.setrecursionlimit(10000)


def compile_repo():
    bad = []
    for root, _dirs, files in os.walk(os.environ.get('VERIF_REPO', '/repo') + '/electrumx'):
        for f in files:
            if f.endswith('.py'):
                try:
                    with open(os.path.join(root, f), 'rb') as fh:
                        compile(fh.read(), os.path.join(root, f), 'exec')
                except SyntaxError as e:
                    bad.append(str(e))
    return bad


def main():
    ap = argparse.ArgumentParser()
    ap.add_argument('prop', nargs='?')
    ap.add_argument('--tier', default=os.environ.get('VERIF_TIER', 'quick'))
    ap.add_argument('--seed', type=int, default=int(os.environ.get('VERIF_SEED', '1')))
    ap.add_argument('--replay')
    ap.add_argument('--trace', action='store_true')
    a = ap.parse_args()
    bad = compile_repo()
    if bad:
        print('HARNESS-ERROR: /repo does not compile:', bad[:2])
        return 2
    from sim import runner
    if a.replay:
        if not a.trace:
            import logging
            import warnings
            logging.disable(logging.CRITICAL)
            warnings.simplefilter('ignore')
        rp, res = runner.replay(a.replay, trace=a.trace, logs=a.trace)
        hit = [v for v in res.violations if v.signature() == rp['signature']]
        print(f"replay {a.replay}: family={rp['family']} seed={rp['seed']} ops={len(rp['case']['plan'])}")
        if a.trace:
            for t in (res.trace or [])[-int(os.environ.get('TRACE_N', '400')):]:
                print(t)
            for r in (res.log or [])[-200:]:
                print(r)
        for v in res.violations:
            print('  ', v)
        if res.harness_error:
            print('HARNESS-ERROR:', res.harness_error)
            return 2
        same = res.digest == rp['event_digest']
        print(f"event digest {'matches' if same else 'DIFFERS from'} the recorded one")
        if hit:
            print(f"VIOLATION property={rp['property']} replay={a.replay}")
            return 1
        print('no violation reproduced')
        return 0
    if a.tier not in ('quick', 'thorough'):
        a.tier = 'quick'
    mod = importlib.import_module('props.' + a.prop.lower())
    return runner.run_check(mod.CHECK, a.tier, a.seed)


if __name__ == '__main__':
    sys.exit(main())
