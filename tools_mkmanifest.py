"""Regenerate MANIFEST.json from the check specs in props/cNN.py (+ manifest_texts.json overrides)."""
import importlib
import json
import os
import sys
sys.path.insert(0, '/verif')
sys.path.insert(0, '/repo')
props = [json.loads(l) for l in open('/verif/properties.jsonl')]
TEXT = json.load(open('/verif/manifest_texts.json'))
checks, na = [], []
for p in props:
    pid = p['id']
    if os.path.exists(f'/verif/props/{pid.lower()}.py'):
        spec = importlib.import_module('props.' + pid.lower()).CHECK
        t = TEXT.get(pid, {})
        text = t.get('text') or ('Seeded search over deterministic simulated runs with fault injection; '
                                 + spec['rule'][:900])
        checks.append(dict(
            property_id=pid, quick_cmd=f'./check {pid} --tier quick',
            thorough_cmd=f'./check {pid} --tier thorough', evidence_file=f'evidence/{pid}.json',
            replay_cmd_template='./check --replay {path}', engine='dst',
            level_claimed=dict(category=spec['level'], text=text,
                               design_ref=t.get('ref', f'DESIGN.md section 7/{pid}')),
            level_note=t.get('note') or '; '.join(spec['assumptions']),
            technique=t.get('technique') or spec.get('technique') or
            'deterministic simulation with fault injection (seeded schedule/fault search, reference-model oracle)'))
    else:
        na.append(dict(property_id=pid, reason=TEXT.get('_na', {}).get(
            pid, 'check not built yet in this phase (planned in DESIGN.md section 7); not claimed until it exists')))
m = dict(
    version=1, setup_cmd='./setup.sh',
    hooks=dict(guard='ELECTRUMX_VERIF',
               enable='no hook is needed: every seam is installed from the harness by rebinding module-level '
                      'names (DESIGN.md 3.4); the guard name is reserved',
               baseline_off_cmd='cd /repo && /venv/bin/python -m pytest -ra -q -p no:cacheprovider '
                                '--timeout=900 --continue-on-collection-errors',
               source_commits=[], add_only=True),
    engines=[dict(name='dst', path='sim/', serves_properties=[c['property_id'] for c in checks],
                  kind_free_text='deterministic simulation with fault injection: virtual-time asyncio loop, '
                                 'baton-passed worker threads, simulated storage/network/daemon, seeded search '
                                 'with minimised replay files')],
    checks=checks, not_applicable=na,
    notes='Exit codes: 0 held / 1 VIOLATION line / 2 HARNESS-ERROR (never a verdict). fix: commits in /repo '
          'and open findings are listed in known_findings.json.')
json.dump(m, open('/verif/MANIFEST.json', 'w'), indent=1)
print(len(checks), 'checks', len(na), 'na')
