"""Seeded search over many simulated runs on all cores, minimisation, replay files, known
findings and evidence.  See DESIGN.md section 6.
"""
import collections
import concurrent.futures as cf
import faulthandler
import hashlib
import importlib
import json
import multiprocessing
import os
import random
import subprocess
import sys
import time
import traceback

from sim.kernel import Chooser

VERIF = os.path.dirname(os.path.dirname(os.path.abspath(__file__)))
NPROC = int(os.environ.get('VERIF_NPROC', '0')) or min(16, os.cpu_count() or 4)


def code_digest():
    try:
        head = subprocess.run(['git', '-C', os.environ.get('VERIF_REPO', '/repo'), 'rev-parse', 'HEAD'], capture_output=True,
                              text=True, timeout=20).stdout.strip()
        diff = subprocess.run(['git', '-C', os.environ.get('VERIF_REPO', '/repo'), 'diff', 'HEAD', '--', 'electrumx',
                               'electrumx_compact_history'], capture_output=True, timeout=20).stdout
        return head[:12] + ('+' + hashlib.sha256(diff).hexdigest()[:8] if diff else '')
    except Exception:
        return 'unknown'


def load_family(name):
    mod = importlib.import_module('props.' + name)
    return mod.FAMILY


def rle(xs):
    out = []
    for x in xs:
        if out and out[-1][0] == x:
            out[-1][1] += 1
        else:
            out.append([x, 1])
    return out


def unrle(pairs):
    out = []
    for x, n in pairs:
        out.extend([x] * n)
    return out


def run_case(family, case, choices=None, seed=0, trace=False, logs=False):
    chooser = Chooser(seed, replay=choices)
    return family.execute(case, chooser, trace=trace, logs=logs)


def seed_for(base, i):
    return (base * 1_000_003 + i) & 0x7fffffffffff


class Agg:
    """Aggregated over the runs of one worker process; merged in the parent."""

    def __init__(self):
        self.runs = 0
        self.vt = 0.0
        self.stats = collections.Counter()
        self.probes = collections.Counter()
        self.digests = set()
        self.isigs_nontrivial = set()
        self.nontrivial = 0
        self.violations = []        # dicts: seed, case, choices(rle), violation
        self.other = collections.Counter()   # violations of other properties seen (not judged here)
        self.samples = []
        self.harness_errors = []
        self.wall = 0.0
        self.fam_runs = collections.Counter()

    def merge(self, o):
        self.runs += o.runs
        self.vt += o.vt
        self.stats.update(o.stats)
        self.probes.update(o.probes)
        self.digests |= o.digests
        self.isigs_nontrivial |= o.isigs_nontrivial
        self.nontrivial += o.nontrivial
        self.violations.extend(o.violations)
        self.other.update(o.other)
        self.samples.extend(o.samples[:2])
        self.harness_errors.extend(o.harness_errors)
        self.wall = max(self.wall, o.wall)
        self.fam_runs.update(o.fam_runs)


def _worker(spec):
    """Runs in a forked child: seeds base+k, base+k+stride, ... until the deadline."""
    (prop, fam_specs, tier, base, k, stride, max_runs, budget, per_run_wall) = spec
    sys.setrecursionlimit(10000)
    import logging
    logging.disable(logging.CRITICAL)
    agg = Agg()
    fams = [(load_family(n), wt) for n, wt in fam_specs]
    t0 = time.perf_counter()
    i = k
    while i < max_runs and time.perf_counter() - t0 < budget:
        seed = seed_for(base, i)
        rng = random.Random(seed)
        fam = rng.choices([f for f, _ in fams], [wt for _, wt in fams])[0]
        for attempt in range(20):
            try:
                faulthandler.dump_traceback_later(per_run_wall, exit=True)
                break
            except RuntimeError:        # thread table of the machine momentarily full
                time.sleep(0.5)
        else:
            agg.harness_errors.append('unable to start the per-run watchdog thread (20 attempts)')
            break
        try:
            case = fam.gen(rng, tier, prop)
            res = run_case(fam, case, seed=seed)
        except BaseException as e:      # noqa: B902
            agg.harness_errors.append(f'seed {seed} family {fam.name}: {e!r}\n'
                                      + traceback.format_exc()[-1500:])
            i += stride
            if len(agg.harness_errors) > 3:
                break
            continue
        finally:
            faulthandler.cancel_dump_traceback_later()
        agg.runs += 1
        agg.fam_runs[fam.name] += 1
        agg.vt += res.vt
        agg.stats.update(res.stats)
        agg.probes.update(res.probes)
        agg.digests.add(res.digest)
        if res.harness_error:
            agg.harness_errors.append(f'seed {seed} family {fam.name}: {res.harness_error}')
            if len(agg.harness_errors) > 3:
                break
        if res.nontrivial:
            agg.nontrivial += 1
            agg.isigs_nontrivial.add(res.isig)
        mine = [v for v in res.violations if v.prop == prop]
        for v in res.violations:
            if v.prop != prop:
                agg.other[v.signature()] += 1
        if mine:
            # report a violation no known finding explains, if there is one
            kf = [(v, fam.known_finding(v, res)) for v in mine]
            pick = next(((v, k) for v, k in kf if not k), kf[0])
            if pick[1]:
                agg.stats['known_finding_runs'] += 1
        if mine and (len(agg.violations) < 6 or (not pick[1] and len(agg.violations) < 12)):
            vcase, vchoices = pick[0].repro if pick[0].repro else (case, res.choices)
            agg.violations.append(dict(seed=seed, family=fam.name, case=vcase,
                                       choices=rle(vchoices),
                                       violation=pick[0].to_json(),
                                       signature=pick[0].signature(),
                                       known=pick[1]))
        elif mine:
            agg.stats['violations_not_kept'] += 1
        if len(agg.samples) < 2:
            agg.samples.append(dict(seed=seed, family=fam.name, case=fam.describe(case),
                                    virtual_s=round(res.vt, 2), steps=res.stats.get('steps'),
                                    choices=len(res.choices), digest=res.digest))
        i += stride
    agg.wall = time.perf_counter() - t0
    return agg


def search(prop, fam_specs, tier, base_seed, max_runs, budget, per_run_wall=120):
    ctx = multiprocessing.get_context('fork')
    agg = Agg()
    specs = [(prop, fam_specs, tier, base_seed, k, NPROC, max_runs, budget, per_run_wall)
             for k in range(NPROC)]
    with cf.ProcessPoolExecutor(max_workers=NPROC, mp_context=ctx) as ex:
        futs = [ex.submit(_worker, s) for s in specs]
        for f in futs:
            try:
                agg.merge(f.result(timeout=budget + per_run_wall + 120))
            except BaseException as e:      # noqa: B902
                agg.harness_errors.append(f'worker died: {e!r}')
    return agg


# ---- minimisation ------------------------------------------------------------------------------

def minimise(family, case, choices, sig, seed, budget=90.0, max_runs=250):
    t0 = time.perf_counter()
    runs = [0]

    def test(c, ch):
        if runs[0] >= max_runs or time.perf_counter() - t0 > budget:
            return None
        runs[0] += 1
        try:
            r = run_case(family, c, choices=ch, seed=seed)
        except BaseException:       # noqa: B902
            return None
        if r.harness_error:
            return None
        if any(v.signature() == sig and not family.known_finding(v, r) for v in r.violations):
            return r
        return None

    best = test(case, choices)
    if best is None:
        return case, choices, None, runs[0]
    choices = list(best.choices)
    # 1. plan operations: drop from the end backwards, then any single op
    plan = list(case['plan'])
    i = len(plan) - 1
    while i >= 0:
        if plan[i].get('keep'):
            i -= 1
            continue
        cand = dict(case, plan=plan[:i] + plan[i + 1:])
        r = test(cand, choices)
        if r is not None:
            plan = cand['plan']
            best = r
            choices = list(r.choices)
        i -= 1
    case = dict(case, plan=plan)
    # 2. family-specific simplification of arguments / knobs
    for cand in family.simplify(case):
        r = test(cand, choices)
        if r is not None:
            case, best, choices = cand, r, list(r.choices)
    # 3. choice stream: zero out blocks
    n = len(choices)
    size = max(8, n // 2)
    def spent():
        return runs[0] >= max_runs or time.perf_counter() - t0 > budget

    while size >= 8 and not spent():
        pos = 0
        while pos < n and not spent():      # (building a candidate of a multi-million choice stream is not free)
            if any(choices[pos:pos + size]):
                cand = choices[:pos] + [0] * min(size, n - pos) + choices[pos + size:]
                r = test(case, cand)
                if r is not None:
                    choices = list(r.choices)
                    n = len(choices)
                    best = r
            pos += size
        size //= 2
    # final confirmation run gives the digest
    final = test(case, choices) if runs[0] < max_runs + 5 else best
    runs[0] += 0
    return case, choices, (final or best), runs[0]


def write_replay(prop, fam_name, seed, case, choices, res, sig, tier, note=''):
    d = os.path.join(VERIF, 'replays')
    os.makedirs(d, exist_ok=True)
    v = next((v for v in res.violations if v.signature() == sig), None)
    path = os.path.join(d, f'{prop}-{seed}.json')
    with open(path, 'w') as f:
        json.dump(dict(property=prop, family=fam_name, seed=seed, tier=tier, signature=sig,
                       clause=v.clause if v else None, message=v.message if v else None,
                       code_digest=code_digest(), event_digest=res.digest, case=case,
                       choices=rle(choices), note=note), f, indent=1)
    return path


def replay(path, trace=False, logs=False):
    with open(path) as f:
        rp = json.load(f)
    fam = load_family(rp['family'])
    res = run_case(fam, rp['case'], choices=unrle(rp['choices']), seed=rp['seed'], trace=trace,
                   logs=logs)
    return rp, res


# ---- known findings ---------------------------------------------------------------------------

def load_findings():
    p = os.path.join(VERIF, 'known_findings.json')
    try:
        with open(p) as f:
            return json.load(f)['findings']
    except FileNotFoundError:
        return []


# ---- the check ----------------------------------------------------------------------------------

def write_evidence(prop, tier, seed, level, coverage, assumptions, wall, nviol):
    d = os.path.join(VERIF, 'evidence')
    if os.environ.get('VERIF_NO_EVIDENCE'):      # mutant trials must not touch committed evidence
        d = os.environ.get('PYTHONPYCACHEPREFIX') or '/tmp'
    os.makedirs(d, exist_ok=True)
    ev = dict(property_id=prop, tier=tier, seed=seed, level=level, coverage=coverage,
              assumptions=assumptions, wall_s=round(wall, 2), violations=nviol)
    tmp = os.path.join(d, f'.{prop}.json.tmp')
    with open(tmp, 'w') as f:
        json.dump(ev, f, indent=1, default=str)
    os.replace(tmp, os.path.join(d, f'{prop}.json'))


def run_check(spec, tier, base_seed):
    """spec: a props.<id>.CHECK dict.  Returns the process exit code."""
    prop = spec['property']
    import logging
    logging.disable(logging.CRITICAL)
    import warnings
    warnings.simplefilter('ignore', RuntimeWarning)
    t0 = time.perf_counter()
    budget = int(os.environ.get('VERIF_BUDGET') or spec['budget'][tier])     # override for trials only
    max_runs = spec['max_runs'][tier]
    fam_specs = spec['families']
    print(f'[{prop}] tier={tier} seed={base_seed} nproc={NPROC} budget={budget}s '
          f'code={code_digest()}', flush=True)
    findings = [f for f in load_findings() if f['property'] == prop]
    open_findings = {f['id']: f for f in findings if f['status'] == 'open'}
    exit_code = 0
    known_lines = []
    viol_lines = []
    # 1. committed replays of findings: open ones must still reproduce (KNOWN-FINDING line),
    #    fixed ones must pass now
    for f in findings:
        rp_path = os.path.join(VERIF, f['replay']) if f.get('replay') else None
        if not rp_path or not os.path.exists(rp_path):
            continue
        rp, res = replay(rp_path)
        hit = any(v.signature() == rp['signature'] for v in res.violations)
        if f['status'] == 'open':
            if hit:
                known_lines.append(f"KNOWN-FINDING: property={prop} {f['what_fails']}")
            else:
                print(f"NOTE: open finding {f['id']} no longer reproduces from its replay")
        elif hit:
            viol_lines.append(f'VIOLATION property={prop} replay={rp_path}')
            print(f"fixed finding {f['id']} has returned")
    # 2. extra deterministic parts of this check (enumerations, probes)
    extra_cov = {}
    for fn in spec.get('extras', ()):
        r = fn(tier, base_seed)
        extra_cov.update(r.get('coverage', {}))
        for v in r.get('violations', ()):
            kf = v.get('known')
            if kf and kf in open_findings:
                line = f"KNOWN-FINDING: property={prop} {open_findings[kf]['what_fails']}"
                if line not in known_lines:
                    known_lines.append(line)
            else:
                viol_lines.append(f"VIOLATION property={prop} replay={v['replay']}")
    # 3. seeded search
    agg = Agg()
    if fam_specs:
        agg = search(prop, fam_specs, tier, base_seed, max_runs, budget,
                     per_run_wall=180 if tier == 'quick' else 1200)
    nviol = 0
    seen_sigs = set()
    for v in sorted(agg.violations, key=lambda v: v['seed']):
        kf = v.get('known')
        if kf and kf in open_findings:
            line = f"KNOWN-FINDING: property={prop} {open_findings[kf]['what_fails']}"
            if line not in known_lines:
                known_lines.append(line)
            continue
        nviol += 1
        if v['signature'] in seen_sigs or len(seen_sigs) >= 2:
            continue
        seen_sigs.add(v['signature'])
        fam = load_family(v['family'])
        case, choices, res, nruns = minimise(fam, v['case'], unrle(v['choices']), v['signature'],
                                             v['seed'])
        if res is None:
            # could not reproduce in the parent: determinism failure = harness error
            agg.harness_errors.append(f"violation of seed {v['seed']} did not reproduce: "
                                      f"{v['violation']}")
            continue
        path = write_replay(prop, v['family'], v['seed'], case, choices, res, v['signature'], tier,
                            note=f'minimised in {nruns} runs from {len(v["case"]["plan"])} ops / '
                                 f'{sum(n for _x, n in v["choices"])} choices')
        print(f"violation: {v['signature']}: {v['violation']['message'][:300]}")
        viol_lines.append(f'VIOLATION property={prop} replay={path}')
    wall = time.perf_counter() - t0
    runs = max(agg.runs, 0)
    cov = dict(
        evaluations=runs + extra_cov.pop('evaluations', 0),
        distinct_nontrivial=len(agg.isigs_nontrivial) + extra_cov.pop('distinct_nontrivial', 0),
        rule=spec['rule'],
        samples=(agg.samples[:3] + extra_cov.pop('samples', []))[:6],
        runs_per_hour=int(runs / max(agg.wall, 1e-6) * 3600) if runs else 0,
        simulated_seconds=round(agg.vt, 1),
        distinct_runs_by_event_digest=len(agg.digests),
        nontrivial_runs=agg.nontrivial,
        families=dict(agg.fam_runs),
        scheduling_steps=agg.stats.get('steps', 0),
        thread_switches=agg.stats.get('wstep', 0),
        choices_drawn=agg.stats.get('choices', 0),
        faults_fired={k: v for k, v in sorted(agg.stats.items())
                      if k.startswith(('dfault.', 'crash', 'torn', 'stall', 'sigterm', 'poke.',
                                       'kill', 'cfault.', 'line_yield', 'loop_seam', 'io_error', 'slow_rpc', 'alloc_fail'))
                      } | {k: v for k, v in sorted(agg.probes.items()) if k.startswith('on_rpc.fired')},
        probes=dict(sorted(agg.probes.items())),
        other_property_signals=dict(agg.other),
        components=spec.get('components', COMPONENTS),
        harness_errors=agg.harness_errors[:3],
        known_findings_reported=len(known_lines),
    )
    cov.update(extra_cov)
    write_evidence(prop, tier, base_seed, spec['level'], cov, spec['assumptions'], wall,
                   len(viol_lines))
    for line in known_lines:
        print(line)
    if agg.harness_errors:
        for e in agg.harness_errors[:3]:
            print('HARNESS-ERROR:', e)
        exit_code = 2
    stuck = [p for p in spec.get('required_probes', ()) if not agg.probes.get(p)]
    if stuck and not viol_lines:
        print(f'NOTE: probes stuck at zero: {stuck}')
    for line in viol_lines:
        print(line)
    if viol_lines:
        exit_code = 1
    print(f'[{prop}] runs={runs} nontrivial={agg.nontrivial} distinct_isig='
          f'{len(agg.isigs_nontrivial)} vt={agg.vt:.0f}s wall={wall:.1f}s '
          f'violations={len(viol_lines)} known={len(known_lines)} exit={exit_code}', flush=True)
    return exit_code


COMPONENTS = {
    'real': ['electrumx.server.block_processor', 'electrumx.server.db', 'electrumx.server.history',
             'electrumx.server.daemon.Daemon', 'electrumx.server.mempool',
             'electrumx.server.controller (Controller.run, Notifications)',
             'electrumx.server.session (SessionManager, ElectrumX, LocalRPC)',
             'electrumx.server.peers', 'electrumx.server.storage (Storage, LevelDB)', 'electrumx.lib.*', 'aiorpcX transport/framing/JSON-RPC',
             'asyncio tasks/futures/locks/shield (BaseEventLoop)'],
    'stub': ['bitcoind (SimDaemon model)', 'aiohttp.ClientSession (shim)', 'the plyvel module (simulated store; the LevelDB class of electrumx.server.storage on top of it is real)',
             'file system and os.* (SimFS)', 'TCP (SimNet)', 'clocks', 'worker-thread scheduling '
             '(real threads, baton passing)', 'Electrum clients / peers (models)'],
}
