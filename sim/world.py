"""ServerWorld: the real ElectrumX server (Controller.run()) inside the simulator, with the
supervisor operations (start, SIGTERM, crash, restart, bare DB open, compaction tool).
See DESIGN.md sections 2 and 4.5.
"""
import asyncio
import itertools
import logging
import os
import random
import signal

from sim import seams
from sim.kernel import Sim, SimCrash, HarnessError, drain
from sim.net import SimNet, NetLoop, SimClient
from sim.chaingen import BlockTree, ChainGen
from sim.daemon import SimDaemon, DaemonNet, FaultPlan

os.environ.update(DB_DIRECTORY='/db', COIN='BitcoinSV', NET='regtest', ALLOW_ROOT='1',
                  DB_ENGINE='leveldb')

from electrumx.lib.coins import BitcoinSVRegtest            # noqa: E402
from electrumx.server.env import Env                        # noqa: E402
import electrumx.server.daemon as dmod                      # noqa: E402
import electrumx.server.block_processor as bpmod            # noqa: E402
import electrumx.server.controller as ctlmod                # noqa: E402
import electrumx.server.session as sessmod                  # noqa: E402
import electrumx.server.mempool as mpmod                    # noqa: E402
import electrumx.server.db as dbmod                         # noqa: E402
import electrumx.server.peers as peersmod                   # noqa: E402
import electrumx.lib.peer as libpeer                        # noqa: E402


class SimCoin(BitcoinSVRegtest):
    NAME = 'BitcoinSV'
    NET = 'regtest'
    PEERS = []
    GENESIS_ACTIVATION = 10_000
    _prefetch = 10

    @classmethod
    def prefetch_limit(cls, height):
        return cls._prefetch


class LogRing(logging.Handler):
    def __init__(self, n=4000):
        super().__init__()
        self.n = n
        self.records = []

    def emit(self, record):
        try:
            msg = record.getMessage()
        except Exception:
            msg = str(record.msg)
        if record.exc_info:
            msg += ' | ' + repr(record.exc_info[1])
        self.records.append((record.levelname, record.name, msg))
        if len(self.records) > self.n:
            del self.records[:self.n // 2]


_current = None     # the World whose server is being constructed / running


_peer_seq = [itertools.count()]


def _set_default(fn, name, value):
    """Set the default of one named positional parameter (by name, so that the harness does not depend on
    the rest of the signature)."""
    import inspect
    params = [p for p in inspect.signature(fn).parameters.values()
              if p.kind in (p.POSITIONAL_ONLY, p.POSITIONAL_OR_KEYWORD)]
    with_default = [p for p in params if p.default is not p.empty]
    names = [p.name for p in with_default]
    if name in names and fn.__defaults__:
        d = list(fn.__defaults__)
        d[names.index(name)] = value
        fn.__defaults__ = tuple(d)


def _install_capture():
    """Harness-side wrappers (no repo change): remember the objects the Controller creates and
    record the calls on the Notifications object."""
    if getattr(bpmod.BlockProcessor, '_sim_wrapped', False):
        return
    bp_init = bpmod.BlockProcessor.__init__

    def bp_init_wrap(self, *args, **kwargs):
        bp_init(self, *args, **kwargs)
        if _current is not None:
            _current._on_bp(self)
    bpmod.BlockProcessor.__init__ = bp_init_wrap
    bpmod.BlockProcessor._sim_wrapped = True

    sm_init = sessmod.SessionManager.__init__

    def sm_init_wrap(self, *args, **kwargs):
        sm_init(self, *args, **kwargs)
        if _current is not None:
            _current._on_smgr(self)
    sessmod.SessionManager.__init__ = sm_init_wrap

    import electrumx.server.history as hmod
    h_init = hmod.History.__init__

    def h_init_wrap(self, *args, **kwargs):
        h_init(self, *args, **kwargs)
        if _current is not None and _current.k.get('max_hist_row'):
            self.max_hist_row_entries = _current.k['max_hist_row']
    hmod.History.__init__ = h_init_wrap

    # Peer objects live in sets and have no __hash__ of their own: the default one is derived from the memory
    # address, so that set iteration order (which peer is verified / shuffled / advertised first) would vary
    # from run to run.  Equality stays identity; the hash becomes the creation sequence number of the run.
    import electrumx.lib.peer as peermod
    p_init = peermod.Peer.__init__

    def peer_init_wrap(self, *args, **kwargs):
        self._sim_seq = next(_peer_seq[0])
        p_init(self, *args, **kwargs)
    peermod.Peer.__init__ = peer_init_wrap
    peermod.Peer.__hash__ = lambda self: self._sim_seq

    N = ctlmod.Notifications
    o_block, o_mempool, o_start = N.on_block, N.on_mempool, N.start

    async def on_block(self, touched, height):
        w = _current
        if w is not None and w.notif_monitor is not None:
            w.notif_monitor('block', height, set(touched))
        return await o_block(self, touched, height)

    async def on_mempool(self, touched, height):
        w = _current
        if w is not None and w.notif_monitor is not None:
            w.notif_monitor('mempool', height, set(touched))
        return await o_mempool(self, touched, height)

    async def start(self, height, notify_func):
        w = _current

        async def notify(h, touched):
            if w is not None and w.notif_monitor is not None:
                w.notif_monitor('notify', h, set(touched))
            return await notify_func(h, touched)
        if w is not None and w.notif_monitor is not None:
            w.notif_monitor('start', height, set())
        return await o_start(self, height, notify)

    N.on_block, N.on_mempool, N.start = on_block, on_mempool, start


class FakeSOCKSProxy:
    """Stands in for aiorpcx.SOCKSProxy (the SOCKS wire protocol needs real sockets): detection
    answers what the world says, connections go through the simulated network."""

    def __init__(self, world, address):
        from aiorpcx import NetAddress
        self.world = world
        self.address = NetAddress(address[0], address[1])
        self.peername = address

    def __str__(self):
        return f'fake SOCKS proxy at {self.address}'

    async def create_connection(self, protocol_factory, host, port, *, resolve=False, ssl=None,
                                family=0, proto=0, flags=0):
        from aiorpcx import NetAddress
        proxy = self

        def factory():
            protocol = protocol_factory()
            protocol._proxy = proxy
            protocol._remote_address = NetAddress(host, port)
            return protocol
        return await self.world.net.create_connection(factory, host, port, via_proxy=True, ssl=ssl)


def _make_socks_class(world):
    class SOCKSProxy:
        @classmethod
        async def auto_detect_at_host(cls, host, ports, auth):
            await asyncio.sleep(world.sim.ch.delay(0.001, 0.5))
            if world.tor_proxy_port is not None and world.tor_proxy_port in ports:
                return FakeSOCKSProxy(world, (str(host) if str(host) != 'localhost' else '127.0.0.1',
                                              world.tor_proxy_port))
            return None
    return SOCKSProxy


class Server:
    """One incarnation of the server process."""

    def __init__(self):
        self.loop = None
        self.task = None
        self.ctl = None
        self.env = None
        self.bp = None
        self.db = None
        self.smgr = None
        self.mempool = None
        self.notifications = None
        self.exit = None        # None while running; ('ok', None) / ('exc', e) after return


DEFAULT_KNOBS = dict(
    activation=12, prefetch=3, reorg_limit=10, chunk_size=25_000_000, cache_mb=5,
    max_send=1_000_000, preempt=True, stall_p=0.0, line_p=0.0, loop_seam_p=0.0,
    daemon_latency=(0.0005, 0.05), net_latency=(0.001, 0.05), fault_rate=0.0,
    orphans_return=True, txindex=True, urls=1, resegment=True, max_hist_row=None,
    services='tcp://:50001,rpc://:8000', peer_discovery='off', tor_proxy_port=None, session_timeout=10_000_000,
    request_timeout=30, cost_limits=(0, 0), extra_env=None, stall_boost=None, polling_delay=None,
    refresh_secs=None, protos=None, stall_max=None, file_size=None, log_status_secs=None, line_stall_p=None, queue_p=None,
)


class World:
    def __init__(self, chooser, knobs=None, trace=False):
        k = dict(DEFAULT_KNOBS)
        if knobs:
            k.update(knobs)
        self.k = k
        self.sim = Sim(chooser, preempt=k['preempt'], stall_p=k['stall_p'], line_p=k['line_p'],
                       loop_seam_p=k['loop_seam_p'], trace=trace)
        if k.get('stall_boost'):
            self.sim.stall_boost = tuple(k['stall_boost'])
        if k.get('stall_max'):
            self.sim.stall_max = float(k['stall_max'])
        if k.get('line_stall_p'):
            self.sim.line_stall_p = float(k['line_stall_p'])
        if k.get('queue_p'):
            self.sim.queue_p = float(k['queue_p'])
        self.fs = seams.SimFS()
        self.fs.sim = self.sim
        self.store = seams.SimDBStore()
        self.tree = BlockTree(k['activation'])
        self.gen = ChainGen(self.tree, k.get('gen_weights'))
        self.daemons = [SimDaemon(self.tree, orphans_return=k['orphans_return'],
                                  txindex=k['txindex'])]
        self.daemon = self.daemons[0]
        self.urls = [f'http://u:p@d{i + 1}:8332/' for i in range(k['urls'])]
        self.faults = FaultPlan(self.sim, rate=k['fault_rate'])
        self.dnet = DaemonNet(self.sim, {u: self.daemon for u in self.urls}, self.faults,
                              latency=tuple(k['daemon_latency']))
        self.net = SimNet(self.sim, latency=tuple(k['net_latency']), resegment=k['resegment'])
        self.server = None
        self.incarnations = 0
        self.notif_monitor = None
        self.logring = None
        self._run_id = 0
        self.server_exits = []
        self.on_start = []       # callbacks(world) run after each server start
        self.tor_proxy_port = k.get('tor_proxy_port')      # None = no Tor proxy reachable
        self.real_storage = k.get('real_storage')          # self-test: real LevelDB in this directory
        self.on_end = []         # callbacks(world) run when a server incarnation is gone
        _install_capture()

    # -- logging
    def capture_logs(self):
        if self.logring is None:
            self.logring = LogRing()
            root = logging.getLogger()
            for h in list(root.handlers):
                root.removeHandler(h)
            root.addHandler(self.logring)
            root.setLevel(logging.INFO)
            logging.disable(logging.NOTSET)
        return self.logring

    # -- incarnation management
    def _reset_process_globals(self):
        ODB = bpmod.OnDiskBlock
        ODB.blocks = {}
        ODB.tasks = {}
        ODB.log_block = False
        ODB.daemon = None
        ODB.state = None
        ODB.chunk_size = self.k['chunk_size']
        dmod.Daemon.id_counter = itertools.count()
        _peer_seq[0] = itertools.count(1000 * self.incarnations)
        sessmod.SessionBase.session_counter = itertools.count()
        sessmod.SessionBase.log_new = False
        random.seed(12345 + self.incarnations)
        SimCoin.GENESIS_ACTIVATION = self.k['activation']
        SimCoin._prefetch = self.k['prefetch']
        # hard-coded poll periods, varied only by families to which block / mempool polling is irrelevant
        bpmod.BlockProcessor.polling_delay = self.k.get('polling_delay') or 5
        rs = float(self.k.get('refresh_secs') or 5.0)
        _set_default(mpmod.MemPool.__init__, 'refresh_secs', rs)
        _set_default(mpmod.MemPool.__init__, 'log_status_secs', float(self.k.get('log_status_secs') or 60.0))

    def _install(self):
        global _current
        _current = self
        self.sim.dead = False
        self.sim.epoch += 1
        seams.install_storage(self)
        dmod.aiohttp = self.dnet.shim()
        peersmod.SOCKSProxy = _make_socks_class(self)
        self._reset_process_globals()

    def make_env(self):
        k = self.k
        env = dict(DAEMON_URL=','.join(u[len('http://'):-1] for u in self.urls),
                   SERVICES=k['services'], PEER_DISCOVERY=k['peer_discovery'],
                   CACHE_MB=str(k['cache_mb']), MAX_SEND=str(k['max_send']),
                   REORG_LIMIT=str(k['reorg_limit']), SESSION_TIMEOUT=str(k['session_timeout']),
                   REQUEST_TIMEOUT=str(k['request_timeout']),
                   COST_SOFT_LIMIT=str(k['cost_limits'][0]),
                   COST_HARD_LIMIT=str(k['cost_limits'][1]), LOG_SESSIONS='0',
                   DB_DIRECTORY=self.real_storage or '/db',
                   DB_ENGINE='leveldb')
        if k['extra_env']:
            env.update(k['extra_env'])
        for key in ('REPORT_SERVICES', 'TOR_PROXY_HOST', 'TOR_PROXY_PORT', 'FORCE_PROXY',
                    'PEER_ANNOUNCE', 'BANNER_FILE', 'DROP_CLIENT', 'DONATION_ADDRESS'):
            os.environ.pop(key, None)
        os.environ.update(env)
        return Env(SimCoin)

    def _new_loop(self):
        loop = NetLoop(self.sim, self.net)
        return loop

    def start(self):
        """Start a server incarnation over the current durable state."""
        if self.server is not None:
            raise HarnessError('server already running')
        self._install()
        self.incarnations += 1
        srv = Server()
        srv.loop = self._new_loop()
        srv.env = self.make_env()
        self.server = srv
        srv.ctl = ctlmod.Controller(srv.env)
        asyncio.set_event_loop(srv.loop)
        srv.task = srv.loop.create_task(srv.ctl.run())
        srv.task.add_done_callback(self._server_done)
        self.sim.log('START', self.incarnations)
        for cb in self.on_start:
            cb(self)
        return srv

    def _on_bp(self, bp):
        srv = self.server
        if srv is not None:
            srv.bp, srv.db, srv.notifications = bp, bp.db, bp.notifications
            if self.k['max_hist_row']:
                bp.db.history.max_hist_row_entries = self.k['max_hist_row']

    def _on_smgr(self, smgr):
        srv = self.server
        if srv is not None:
            srv.smgr, srv.mempool = smgr, smgr.mempool

    def _server_done(self, task):
        srv = self.server
        if srv is None or srv.task is not task:
            return
        if task.cancelled():
            srv.exit = ('cancelled', None)
        elif task.exception() is not None:
            srv.exit = ('exc', task.exception())
        else:
            srv.exit = ('ok', None)
        self.sim.log('EXIT', srv.exit[0], type(srv.exit[1]).__name__)
        srv.loop.stop()

    def sigterm(self):
        srv = self.server
        if srv is None or srv.exit is not None:
            return False
        h = srv.loop.signal_handlers.get(signal.SIGTERM)
        if h is None:
            return False
        cb, args = h
        self.sim.log('SIGTERM')
        self.sim.stats['sigterm'] += 1
        srv.sigterm_sent = True
        cb(*args)
        return True

    # -- running
    def run(self, pred=None, timeout=60.0):
        """Run the simulation until pred() holds, `timeout` virtual seconds passed, the server
        exited or crashed.  Returns 'pred' | 'timeout' | 'exit' | 'crash'."""
        srv = self.server
        sim = self.sim
        if srv is None:
            return self._run_loopless(pred, timeout)
        loop = srv.loop
        self._run_id += 1
        rid = self._run_id
        state = {}

        def hook():
            if 'r' not in state and pred():
                state['r'] = 'pred'
                loop.stop()

        def on_timeout():
            if self._run_id == rid and 'r' not in state:
                state['r'] = 'timeout'
                loop.stop()

        if srv.exit is not None:
            return self._finish_exit()
        if pred is not None:
            if pred():
                return 'pred'
            sim.step_hooks.append(hook)
        sim.at(timeout, on_timeout)
        try:
            loop.run_forever()
        except SimCrash:
            self._after_crash()
            return 'crash'
        finally:
            if pred is not None and hook in sim.step_hooks:
                sim.step_hooks.remove(hook)
            self._run_id += 1
        if srv.exit is not None:
            return self._finish_exit()
        return state.get('r', 'timeout')

    def _run_loopless(self, pred, timeout):
        import heapq
        sim = self.sim
        end = sim.now + timeout
        while True:
            if pred is not None and pred():
                return 'pred'
            if not sim.events or sim.events[0][0] > end:
                sim.now = end
                return 'timeout'
            t, _, fn = heapq.heappop(sim.events)
            if t > sim.now:
                sim.now = t
            fn()

    def _finish_exit(self):
        """The server's main coroutine returned: do what asyncio.run() does, then the process is
        gone."""
        srv = self.server
        try:
            drain(srv.loop)
        except SimCrash:
            self._after_crash()
            return 'crash'
        self.server_exits.append(srv.exit)
        self._close_real_dbs(srv)
        self.last_server = srv
        self.server = None
        self.net.reset_server_side()
        try:
            asyncio.set_event_loop(None)
            srv.loop.close()
        except Exception:
            pass
        self.sim.dead = True     # nothing of the old process may touch storage any more
        for cb in self.on_end:
            cb(self)
        return 'exit'

    def _close_real_dbs(self, srv):
        # a real process exit releases the LevelDB locks; inside one interpreter they must be closed
        if self.real_storage and srv is not None and srv.db is not None:
            for h in (srv.db.utxo_db, srv.db.history.db):
                try:
                    if h is not None:
                        h.close()
                except Exception:
                    pass

    def _after_crash(self):
        srv = self.server
        self._close_real_dbs(srv)
        self.server = None
        self.sim.dead = True
        if srv is not None:
            srv.loop.abandon()
        self.net.reset_server_side()
        self.server_exits.append(('crash', None))
        for cb in self.on_end:
            cb(self)

    def crash(self):
        """Kill the server process right now (between two scheduling steps)."""
        if self.server is None:
            return
        self.sim.crash_now('kill')
        self._after_crash()

    def call(self, coro, timeout=600.0):
        """Run a coroutine as a task on the running server's loop.  Returns ('ok', result) |
        ('exc', e) | ('timeout', None) | ('exit'|'crash', None)."""
        srv = self.server
        task = srv.loop.create_task(coro)
        r = self.run(task.done, timeout)
        if r == 'pred':
            if task.cancelled():
                return 'exc', asyncio.CancelledError()
            if task.exception() is not None:
                return 'exc', task.exception()
            return 'ok', task.result()
        if r == 'timeout':
            task.cancel()
            self.run(task.done, 5.0)
            return 'timeout', None
        return r, None

    # -- bare database access (no server): open the durable state like a fresh process would
    def open_bare(self):
        """Returns (loop, db) with the DB opened for sync then serving, on a fresh loop.
        Raises whatever the open raises."""
        if self.server is not None:
            raise HarnessError('server running')
        self._install()
        self.incarnations += 1
        loop = self._new_loop()
        asyncio.set_event_loop(loop)
        env = self.make_env()
        db = dbmod.DB(env)
        if self.k['max_hist_row']:
            db.history.max_hist_row_entries = self.k['max_hist_row']

        async def opener():
            await db.open_for_sync()
            await db.open_for_serving()
            return db
        loop.run_until_complete(opener())
        return loop, db

    def close_bare(self, loop, db):
        try:
            if db.utxo_db is not None:
                db.utxo_db.close()
            db.history.close_db()
            loop.run_until_complete(loop.shutdown_default_executor())
        finally:
            asyncio.set_event_loop(None)
            loop.close()
            self.sim.dead = True

    def bare_call(self, loop, coro, timeout=600.0):
        """Run coro on a bare loop under a virtual-time limit."""
        async def limited():
            return await asyncio.wait_for(coro, timeout)
        return loop.run_until_complete(limited())

    # -- helpers
    def caught_up(self):
        """Index at the daemon's height, flushed, block processor idle."""
        srv = self.server
        if srv is None or srv.bp is None or srv.db is None or srv.bp.state is None:
            return False
        bp, db = srv.bp, srv.db
        h = self.daemon.height
        return (bp.caught_up and bp.state.height == h and db.state is not None
                and db.state.height == h and bp.state.tip == self.daemon.tip.hash
                and bp.reorg_count is None and not bp.state_lock.locked()
                and not any(x.tag.endswith(('flush_dbs', 'advance_block', 'backup_block'))
                            for x in self.sim.workers))

    def why_not_caught_up(self):
        srv = self.server
        if srv is None or srv.bp is None or srv.db is None or srv.bp.state is None:
            return 'no server / block processor'
        bp, db = srv.bp, srv.db
        return dict(bp_caught_up=bp.caught_up, bp_height=bp.state.height,
                    db_height=db.state.height if db.state else None, daemon=self.daemon.height,
                    tip_ok=bp.state.tip == self.daemon.tip.hash, reorg_count=bp.reorg_count,
                    locked=bp.state_lock.locked(), workers=[x.tag for x in self.sim.workers],
                    blocked=[round(x.blocked_until - self.sim.now, 2) for x in self.sim.workers],
                    cached_daemon_height=srv.bp.daemon.cached_height())

    def new_client(self, name, port=50001, addr=('8.8.4.4', None)):
        return SimClient(self.net, name, port, addr)

    def finish(self):
        """End of run: make sure no real thread or loop is left behind."""
        if self.server is not None:
            self.crash()
            self.sim.stats['crash'] -= 1        # tearing the run down is not an injected fault
            if not self.sim.stats['crash']:
                del self.sim.stats['crash']
        self.sim.dead = True
        self.sim.kill_workers()
        self.sim.shutdown_pool()
        global _current
        _current = None
