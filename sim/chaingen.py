"""Chains, blocks and transactions built with an independent serialiser, a block tree, and the
reference index (RefIndex) computed from the generator's own objects - never from ElectrumX's
parse.  See DESIGN.md 4.1 and 5.
"""
import hashlib
import json
import os
import struct

ZERO32 = bytes(32)
HASHX_LEN = 11


def sha256(b):
    return hashlib.sha256(b).digest()


def dsha(b):
    return hashlib.sha256(hashlib.sha256(b).digest()).digest()


def varint(n):
    if n < 253:
        return bytes([n])
    if n < 65536:
        return b'\xfd' + struct.pack('<H', n)
    if n < 2 ** 32:
        return b'\xfe' + struct.pack('<I', n)
    return b'\xff' + struct.pack('<Q', n)


def ser_tx(ins, outs, version=1, locktime=0):
    parts = [struct.pack('<i', version), varint(len(ins))]
    for (ph, pi, scr, seq) in ins:
        parts += [ph, struct.pack('<I', pi), varint(len(scr)), scr, struct.pack('<I', seq)]
    parts.append(varint(len(outs)))
    for (val, scr) in outs:
        parts += [struct.pack('<q', val), varint(len(scr)), scr]
    parts.append(struct.pack('<I', locktime))
    return b''.join(parts)


def merkle_root(hs):
    hs = list(hs)
    while len(hs) > 1:
        if len(hs) & 1:
            hs.append(hs[-1])
        hs = [dsha(hs[i] + hs[i + 1]) for i in range(0, len(hs), 2)]
    return hs[0]


def merkle_fold(leaf, branch, index):
    """Fold a merkle branch (list of 32-byte hashes) from a leaf at `index` to a root."""
    h = leaf
    for sib in branch:
        h = dsha(sib + h) if index & 1 else dsha(h + sib)
        index >>= 1
    return h


def hashx(script):
    return sha256(script)[:HASHX_LEN]


def scripthash_hex(script):
    return sha256(script)[::-1].hex()


def hex_hash(h):
    return h[::-1].hex()


class Tx:
    __slots__ = ('ins', 'outs', 'raw', 'hash', 'version', 'locktime')

    def __init__(self, ins, outs, locktime=0, version=1):
        self.ins, self.outs, self.version, self.locktime = ins, outs, version, locktime
        self.raw = ser_tx(ins, outs, version, locktime)
        self.hash = dsha(self.raw)

    @property
    def is_coinbase(self):
        return len(self.ins) >= 1 and self.ins[0][0] == ZERO32 and self.ins[0][1] == 0xffffffff

    def prevouts(self):
        return [(ph, pi) for (ph, pi, _s, _q) in self.ins
                if not (ph == ZERO32 and pi == 0xffffffff)]

    def __repr__(self):
        return f'Tx({hex_hash(self.hash)[:10]} {len(self.ins)}in {len(self.outs)}out)'


class Block:
    __slots__ = ('prev', 'height', 'txs', 'header', 'hash', 'raw', 'parent')

    def __init__(self, parent, txs, nonce=0):
        self.parent = parent
        self.prev = parent.hash if parent is not None else ZERO32
        self.height = parent.height + 1 if parent is not None else 0
        self.txs = txs
        root = merkle_root([t.hash for t in txs])
        self.header = (struct.pack('<i', 1) + self.prev + root
                       + struct.pack('<III', 1_600_000_000 + self.height * 600, 0x207fffff,
                                     nonce & 0xffffffff))
        self.hash = dsha(self.header)
        self.raw = self.header + varint(len(txs)) + b''.join(t.raw for t in txs)

    @property
    def hex(self):
        return hex_hash(self.hash)

    def branch(self):
        out = []
        b = self
        while b is not None:
            out.append(b)
            b = b.parent
        out.reverse()
        return out

    def __repr__(self):
        return f'Block(h={self.height} {self.hex[:10]} ntx={len(self.txs)})'


# Script pool: many outputs share a script hash; unspendable forms on both sides of activation
def _p2pkh(i):
    return bytes([0x76, 0xa9, 20]) + bytes([i]) * 20 + b'\x88\xac'


P2PKH = [_p2pkh(i) for i in range(6)]
P2PKH_EXTRA = [_p2pkh(100 + i) for i in range(18)]     # used when a run wants little script overlap
# ... three of them replaced by scripts whose hashX shares its first two bytes with that of P2PKH[0] (twice) and
# of P2PKH[1] (ground once, 65 536 tries each): script hashes of one history-compaction prefix
# ... and two by scripts whose prefix is the *next* one after that of P2PKH[0] / P2PKH[1] (consecutive prefixes)
for _i, _h20 in enumerate(['682a3d6b61b448ab6c3d6f2481148968965b809e', 'ac5885bcdcca036d391c944a79eb54ac9d097b92',
                           '01452e6db669c387edea181f951f02dc1147ec71', '2a43eafd21f951ee1555ee64487d458b1682fa35',
                           '2b54b97d43d4177f233d4982b929621b95bdf482']):
    P2PKH_EXTRA[_i] = bytes([0x76, 0xa9, 20]) + bytes.fromhex(_h20) + b'\x88\xac'
SCRIPTS = P2PKH + [
    b'',                    # empty script
    b'\x51',                # OP_1
    b'\x6a\x01x',           # OP_RETURN <data>
    b'\x00\x6a\x02hi',      # OP_FALSE OP_RETURN <data>
    b'\x6a',                # lone OP_RETURN
    b'\x00',                # lone OP_FALSE
    b'\x6a\x02ab',          # another OP_RETURN script
]
SCRIPT_NAMES = {s: n for s, n in zip(SCRIPTS, ['pk0', 'pk1', 'pk2', 'pk3', 'pk4', 'pk5', 'empty',
                                               'op1', 'opret', 'falseret', 'ret1', 'false1',
                                               'opret2'])}
ALL_HASHX = [hashx(s) for s in SCRIPTS]


def unspendable(script, height, activation):
    """The indexing rule, restated from the property text: OP_FALSE OP_RETURN is never indexed;
    a script starting with OP_RETURN is not indexed when created below the activation height."""
    if script[:2] == b'\x00\x6a':
        return True
    return height < activation and script[:1] == b'\x6a'


_COLLISIONS = None


def coinbase_collisions():
    """Pairs (k1, k2) of coinbase grind values whose tx ids share their first 4 bytes."""
    global _COLLISIONS
    if _COLLISIONS is None:
        p = os.path.join(os.path.dirname(os.path.dirname(os.path.abspath(__file__))), 'data',
                         'coinbase_collisions.json')
        try:
            with open(p) as f:
                _COLLISIONS = [tuple(x) for x in json.load(f)['pairs']]
        except FileNotFoundError:
            _COLLISIONS = []
    return _COLLISIONS


def grind_coinbase(k):
    """The coinbase family used for prefix collisions: fixed shape, one grind value."""
    return Tx([(ZERO32, 0xffffffff, b'\x03' + struct.pack('<Q', k), 0xffffffff)],
              [(5_000_000_000, P2PKH[k % len(P2PKH)])], locktime=0)


class View:
    """UTXO view at a block (spendable outputs under the rule), computed lazily and cached."""
    __slots__ = ('utxos', 'txids')

    def __init__(self, utxos, txids):
        self.utxos = utxos      # (txid, idx) -> (script, value, height)
        self.txids = txids      # set of tx ids on this branch


class BlockTree:
    def __init__(self, activation):
        self.activation = activation
        self.blocks = {}        # hash -> Block
        self.by_hex = {}
        self._views = {}

    def add(self, block):
        self.blocks[block.hash] = block
        self.by_hex[block.hex] = block
        return block

    def view(self, block):
        """View after `block` (None = before genesis)."""
        if block is None:
            return View({}, set())
        v = self._views.get(block.hash)
        if v is not None:
            return v
        pv = self.view(block.parent)
        utxos = dict(pv.utxos)
        txids = set(pv.txids)
        apply_block(utxos, block, self.activation)
        for t in block.txs:
            txids.add(t.hash)
        v = View(utxos, txids)
        self._views[block.hash] = v
        if len(self._views) > 400:
            for k in list(self._views)[:100]:
                del self._views[k]
        return v


def apply_block(utxos, block, activation):
    for t in block.txs:
        for op in t.prevouts():
            del utxos[op]       # KeyError = generator bug: invalid chain
        for i, (v, s) in enumerate(t.outs):
            if not unspendable(s, block.height, activation):
                utxos[(t.hash, i)] = (s, v, block.height)


class ChainGen:
    """Generates valid but adversarial blocks.  All randomness comes from the rng passed in."""

    def __init__(self, tree, weights=None):
        self.tree = tree
        self.nonce = 0
        self.w = dict(p_chain=0.3, p_multi_in=0.3, p_opret=0.15, p_zero=0.1, p_same_script=0.3,
                      p_collide=0.15, max_outs=4, genesis_protect=True)
        if weights:
            self.w.update(weights)
        self.used_collisions = 0

    def _script(self, rng):
        w = self.w
        if rng.random() < w['p_opret']:
            return rng.choice(SCRIPTS[8:])
        if w.get('wide_pool') and rng.random() < 0.7:
            return rng.choice(P2PKH_EXTRA)
        return rng.choice(SCRIPTS[:8])

    def _outs(self, rng, total, n=None):
        w = self.w
        n = n or rng.randint(1, w['max_outs'])
        outs = []
        same = rng.choice(SCRIPTS[:8]) if rng.random() < w['p_same_script'] else None
        remaining = max(total, 0)
        for i in range(n):
            s = same if (same is not None and rng.random() < 0.7) else self._script(rng)
            if rng.random() < w['p_zero'] or remaining == 0:
                v = 0
            elif i == n - 1:
                v = rng.randint(0, remaining)
            else:
                v = rng.randint(0, max(1, remaining // 2))
            remaining -= v
            outs.append((v, s))
        return outs

    def make_tx(self, rng, avail, n_in=None, big=0):
        """Spend 1..3 outpoints from `avail` (dict op -> (script, value, height), mutated:
        spent outpoints are removed).  `big` pads an output script to that many bytes."""
        keys = list(avail)
        k = n_in or (rng.randint(2, 3) if rng.random() < self.w['p_multi_in'] else 1)
        k = max(1, min(k, len(keys)))
        spend = rng.sample(keys, k)
        total = 0
        ins = []
        for op in spend:
            total += avail.pop(op)[1]
            ins.append((op[0], op[1], b'\x00' * rng.randint(0, 3), 0xffffffff))
        self.nonce += 1
        outs = self._outs(rng, total)
        if big:
            outs.append((0, b'\x00\x6a' + bytes(big)))
        return Tx(ins, outs, locktime=self.nonce)

    def make_block(self, parent, rng, ntx, *, include=(), collide=None, big_at=None, big=0, burn=False):
        """A block on `parent` with a coinbase, the still-valid transactions of `include`
        (mempool txs / txs re-mined from an abandoned branch) and up to `ntx` fresh ones."""
        tree = self.tree
        height = parent.height + 1 if parent is not None else 0
        view = tree.view(parent)
        avail = dict(view.utxos)
        if self.w['genesis_protect']:
            for op in [op for op, (_s, _v, h) in avail.items() if h == 0]:
                del avail[op]     # block-0 outputs are never spent
        txids = view.txids
        self.nonce += 1
        cb = None
        pairs = coinbase_collisions()
        if collide is None:
            collide = bool(pairs) and rng.random() < self.w['p_collide']
        if collide and pairs:
            # use one half of a colliding pair; a later block uses the other half
            if not hasattr(self, 'active_pairs'):
                # few pairs per chain so that both halves of a pair really meet
                self.active_pairs = [pairs[rng.randrange(len(pairs))] for _ in range(3)]
            for _ in range(8):
                a, b = self.active_pairs[rng.randrange(len(self.active_pairs))]
                for k in (a, b):
                    cand = grind_coinbase(k)
                    if cand.hash not in txids:
                        cb = cand
                        break
                if cb is not None:
                    self.used_collisions += 1
                    break
        if burn:
            # a block that touches no script hash at all: its coinbase pays a single OP_FALSE OP_RETURN output
            cb = Tx([(ZERO32, 0xffffffff, struct.pack('<IQ', height, self.nonce), 0xffffffff)],
                    [(5_000_000_000, b'\x00\x6a\x02hi')], locktime=self.nonce)
        if cb is None:
            cb = Tx([(ZERO32, 0xffffffff, struct.pack('<IQ', height, self.nonce), 0xffffffff)],
                    self._outs(rng, 5_000_000_000, rng.randint(1, 3)), locktime=self.nonce)
        txs = [cb]
        seen = {cb.hash}

        def add_outs(tx):
            for i, (v, s) in enumerate(tx.outs):
                if not unspendable(s, height, tree.activation):
                    avail[(tx.hash, i)] = (s, v, height)

        if height > 0 or not self.w['genesis_protect']:
            add_outs(cb)
        created = {}
        for tx in include:
            if tx.hash in txids or tx.hash in seen or tx.is_coinbase:
                continue
            if all(op in avail for op in tx.prevouts()):
                for op in tx.prevouts():
                    del avail[op]
                txs.append(tx)
                seen.add(tx.hash)
                add_outs(tx)
        for n in range(ntx):
            if not avail:
                break
            if rng.random() < self.w['p_chain'] and created:
                # spend an output created earlier in this same block
                pool = {op: avail[op] for op in created if op in avail}
                if not pool:
                    pool = avail
            else:
                pool = avail
            sub = dict(pool)
            tx = self.make_tx(rng, sub, big=(big if big_at is not None and n == big_at else 0))
            for op in tx.prevouts():
                avail.pop(op, None)
            txs.append(tx)
            seen.add(tx.hash)
            add_outs(tx)
            for i in range(len(tx.outs)):
                if (tx.hash, i) in avail:
                    created[(tx.hash, i)] = True
        return tree.add(Block(parent, txs, self.nonce))


class RefIndex:
    """What a correct index of `branch` (list of Blocks from genesis) must contain."""

    def __init__(self, branch, activation):
        self.height = len(branch) - 1
        self.tip = branch[-1].hash if branch else ZERO32
        self.headers = [b.header for b in branch]
        self.utxos = {}          # (txid, idx) -> (hashX, value, height, tx_num)
        self.history = {}        # hashX -> [(txid, height)]
        self.txs = []            # tx_num -> (txid, height)
        self.block_txids = []    # height -> [txid]
        self.tx_counts = []
        self.chain_size = 0
        self.out_truth = {}      # every output ever created on this branch -> (hashX, value)
        spent_script = {}
        for b in branch:
            self.chain_size += len(b.raw)
            ids = []
            for t in b.txs:
                num = len(self.txs)
                hx = []
                for op in t.prevouts():
                    h, _v, _ht, _n = self.utxos.pop(op)
                    hx.append(h)
                for i, (v, s) in enumerate(t.outs):
                    self.out_truth[(t.hash, i)] = (hashx(s), v)
                    if unspendable(s, b.height, activation):
                        continue
                    h = hashx(s)
                    self.utxos[(t.hash, i)] = (h, v, b.height, num)
                    hx.append(h)
                for h in dict.fromkeys(hx):
                    self.history.setdefault(h, []).append((t.hash, b.height))
                self.txs.append((t.hash, b.height))
                ids.append(t.hash)
            self.block_txids.append(ids)
            self.tx_counts.append(len(self.txs))
        del spent_script
        self.tx_count = len(self.txs)
        self.utxo_count = len(self.utxos)

    def utxos_of(self, hx):
        """Multiset as a sorted list of (txid, idx, value, height)."""
        return sorted((op[0], op[1], v, ht) for op, (h, v, ht, _n) in self.utxos.items() if h == hx)

    def balance(self, hx):
        return sum(v for (h, v, _ht, _n) in self.utxos.values() if h == hx)


class RefIndex2:
    """Independently written second reference (different algorithm: two passes with global
    maps) used only to cross-check RefIndex in the self-test."""

    def __init__(self, branch, activation):
        created = {}
        spent = set()
        order = []
        for b in branch:
            for pos, t in enumerate(b.txs):
                order.append((b.height, pos, t))
                for i, (v, s) in enumerate(t.outs):
                    ok = not (s.startswith(b'\x00\x6a') or (s.startswith(b'\x6a')
                                                               and b.height < activation))
                    created[(t.hash, i)] = (s, v, b.height, ok)
                for (ph, pi, _s, _q) in t.ins:
                    if ph != ZERO32 or pi != 0xffffffff:
                        spent.add((ph, pi))
        self.utxos = {op: (hashx(s), v, ht) for op, (s, v, ht, ok) in created.items()
                      if ok and op not in spent}
        self.history = {}
        for (ht, pos, t) in order:
            touched = set()
            for (ph, pi, _s, _q) in t.ins:
                if ph != ZERO32 or pi != 0xffffffff:
                    touched.add(hashx(created[(ph, pi)][0]))
            for i, (v, s) in enumerate(t.outs):
                if created[(t.hash, i)][3]:
                    touched.add(hashx(s))
            for h in touched:
                self.history.setdefault(h, []).append((t.hash, ht))
