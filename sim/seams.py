"""Storage / clock seams: an in-memory file system and key-value store installed by rebinding
module-level names of ElectrumX (no change to /repo).  Crash model = process death: every
completed operation is durable; the operation in flight is not applied, or (file write) applied
as a prefix.  See DESIGN.md 3.4.
"""
import posixpath
import sys
import types

from sortedcontainers import SortedDict

from sim.kernel import SimCrash, HarnessError


class SimFS:
    def __init__(self):
        self.sim = None
        self.files = {}      # abs path -> bytearray
        self.dirs = {'/', '/db'}
        self.cwd = '/db'
        self.tear = None     # None: chooser decides among (0, len//2, len-1); else a fraction

    def _abs(self, p):
        return posixpath.normpath(posixpath.join(self.cwd, p))

    def exists(self, p):
        p = self._abs(p)
        return p in self.files or p in self.dirs

    def mkdir(self, p):
        self.sim.seam('fs.mkdir')
        p = self._abs(p)
        if p in self.dirs or p in self.files:
            raise FileExistsError(p)
        self.sim.durable_op('mkdir', p)
        self.dirs.add(p)

    def remove(self, p):
        self.sim.seam('fs.remove')
        p = self._abs(p)
        if p not in self.files:
            raise FileNotFoundError(p)
        self.sim.durable_op('remove', p)
        del self.files[p]

    def open(self, p, mode):
        p = self._abs(p)
        if mode == 'rb+':
            self.sim.seam('fs.open')
            if p not in self.files:
                raise FileNotFoundError(p)
        elif mode == 'wb+':
            self.sim.seam('fs.trunc')
            if posixpath.dirname(p) not in self.dirs:
                raise FileNotFoundError(p)
            self.sim.durable_op('trunc', p)
            self.files[p] = bytearray()
        else:
            raise HarnessError(f'SimFS.open mode {mode}')
        return SimFile(self, p)

    def scandir(self, p):
        self.sim.seam('fs.scandir')
        p = self._abs(p)
        if p not in self.dirs:
            raise FileNotFoundError(p)
        return _Ctx(SimDirEntry(self, f) for f in sorted(self.files) if posixpath.dirname(f) == p)

    def snapshot(self):
        return ({k: bytes(v) for k, v in self.files.items()}, set(self.dirs))

    def restore(self, snap):
        files, dirs = snap
        self.files = {k: bytearray(v) for k, v in files.items()}
        self.dirs = set(dirs)


class _Ctx(list):
    def __enter__(self):
        return iter(self)

    def __exit__(self, *a):
        pass


class SimDirEntry:
    def __init__(self, fs, path):
        self.fs, self.path, self.name = fs, path, posixpath.basename(path)

    def is_file(self):
        return True

    def stat(self):
        return types.SimpleNamespace(st_size=len(self.fs.files.get(self.path, b'')))


class SimFile:
    def __init__(self, fs, path):
        self.fs, self.path, self.pos, self.closed = fs, path, 0, False

    def __enter__(self):
        return self

    def __exit__(self, *a):
        self.close()

    def close(self):
        self.closed = True

    def seek(self, off, whence=0):
        if whence == 0:
            self.pos = off
        elif whence == 1:
            self.pos += off
        else:
            self.pos = len(self.fs.files[self.path]) + off
        return self.pos

    def tell(self):
        return self.pos

    def read(self, size=-1):
        fs = self.fs
        fs.sim.seam('fs.read')
        data = fs.files.get(self.path)
        if data is None:
            raise FileNotFoundError(self.path)   # removed while open: harness keeps it simple
        end = len(data) if size is None or size < 0 else self.pos + size
        out = bytes(data[self.pos:end])
        self.pos += len(out)
        # a real thread can be descheduled between obtaining the data and using it
        fs.sim.seam('fs.read.done')
        return out

    def write(self, b):
        fs = self.fs
        sim = fs.sim
        sim.seam('fs.write')
        b = bytes(b)
        data = fs.files.get(self.path)
        if data is None:
            raise FileNotFoundError(self.path)
        try:
            sim.durable_op('write', (self.path, self.pos, len(b)))
        except SimCrash:
            # torn write: a prefix may have reached the file
            if len(b) > 1:
                if fs.tear is None:
                    k = (0, len(b) // 2, len(b) - 1)[sim.ch.choose(3)]
                else:
                    k = min(len(b) - 1, int(len(b) * fs.tear))
                if k:
                    self._apply(data, b[:k])
                    sim.stats['torn_write'] += 1
            raise
        self._apply(data, b)
        self.pos += len(b)
        return len(b)

    def _apply(self, data, b):
        if len(data) < self.pos:
            data.extend(bytes(self.pos - len(data)))
        data[self.pos:self.pos + len(b)] = b


class OsShim:
    """What electrumx.server.{db,block_processor,storage} use of module `os`."""
    SEEK_SET, SEEK_CUR, SEEK_END = 0, 1, 2
    DirEntry = SimDirEntry

    def __init__(self, fs):
        self._fs = fs
        self.path = types.SimpleNamespace(join=posixpath.join, exists=fs.exists,
                                          basename=posixpath.basename, dirname=posixpath.dirname)

    def chdir(self, d):
        fs = self._fs
        fs.cwd = fs._abs(d)
        fs.dirs.add(fs.cwd)

    def mkdir(self, p):
        self._fs.mkdir(p)

    def remove(self, p):
        self._fs.remove(p)

    def scandir(self, p):
        return self._fs.scandir(p)

    def getpid(self):
        return 4242

    def geteuid(self):
        return 1000

    def __getattr__(self, name):
        raise HarnessError(f'os.{name} is not simulated')


class SimDBStore:
    """Durable content of all databases: name -> SortedDict."""

    def __init__(self):
        self.dbs = {}

    def snapshot(self):
        return {k: SortedDict(v) for k, v in self.dbs.items()}

    def restore(self, snap):
        self.dbs = {k: SortedDict(v) for k, v in snap.items()}


def _next_prefix(p):
    p = bytearray(p)
    while p:
        if p[-1] != 0xff:
            p[-1] += 1
            return bytes(p)
        p.pop()
    return None


class FakePlyvelError(Exception):
    """plyvel.Error"""


def make_fake_plyvel(world):
    """A module object with the part of plyvel's interface that electrumx.server.storage.LevelDB uses,
    backed by the simulated store.  The real `LevelDB(Storage)` class of the working tree runs on top
    of it (engine selection, `is_new`, the partial() that fixes transaction=True / sync=True are all
    ElectrumX code).  Semantics mirror plyvel 1.5.1 (selftest/simdb_vs_plyvel compares them with the real
    engine): iterators read the snapshot taken when they are created; a write batch is applied atomically
    when `write()` runs or its `with` block is left - also when the block raised, unless the batch was
    created with transaction=True, in which case it is discarded; `get` of a missing key gives None.
    The store and the simulator are looked up through `world` at call time so one module object serves
    every incarnation."""

    class WriteBatch:
        def __init__(self, db, transaction=False, sync=False):
            self.db, self.ops, self.transaction = db, [], transaction

        def __enter__(self):
            return self

        def put(self, k, v):
            world.sim.alloc_point('batch.put', (self.db.name, self))
            self.ops.append((bytes(k), bytes(v)))

        def delete(self, k):
            world.sim.alloc_point('batch.delete', (self.db.name, self))
            self.ops.append((bytes(k), None))

        def clear(self):
            self.ops = []

        def write(self):
            sim = world.sim
            sim.seam('db.commit')
            sim.stats['db.commit'] += 1
            sim.commit_batch = self
            sim.durable_op('commit', (self.db.name, len(self.ops)))
            d = self.db._dict()
            for k, v in self.ops:
                if v is None:
                    d.pop(k, None)
                else:
                    d[k] = v

        def __exit__(self, et, ev, tb):
            if self.transaction and et is not None:
                # exception inside a transaction: the batch is discarded
                self.clear()
                return False
            if et is not None:
                world.sim.probes['batch_written_despite_exception'] += 1
            self.write()
            self.clear()
            return False

    class DB:
        def __init__(self, name, create_if_missing=False, error_if_exists=False, max_open_files=None, **_kw):
            store = world.store
            world.sim.seam('db.open')
            if name not in store.dbs:
                if not create_if_missing:
                    raise FakePlyvelError(f'Invalid argument: {name}: does not exist (create_if_missing is false)')
                world.sim.durable_op('dbcreate', name)
                store.dbs[name] = SortedDict()
            elif error_if_exists:
                raise FakePlyvelError(f'Invalid argument: {name}: exists (error_if_exists is true)')
            self.d = store.dbs[name]
            self.name = name
            self.closed = False

        def _dict(self):
            if self.closed:
                raise RuntimeError('Database is closed')
            return self.d

        def close(self):
            self.closed = True

        def get(self, key, default=None, **_kw):
            sim = world.sim
            sim.seam('db.get')
            if key[:1] == b'u':
                w = getattr(sim.current, 'w', None)
                if w is not None and w.tag.endswith('advance_block'):
                    sim.probes['spend_from_db'] += 1
            v = self._dict().get(bytes(key), default)
            sim.seam('db.get.done')
            return v

        def put(self, key, value, **_kw):
            sim = world.sim
            sim.seam('db.put')
            sim.durable_op('put', (self.name, bytes(key)))
            self._dict()[bytes(key)] = bytes(value)

        def delete(self, key, **_kw):
            sim = world.sim
            sim.seam('db.put')
            sim.durable_op('put', (self.name, bytes(key)))
            self._dict().pop(bytes(key), None)

        def write_batch(self, transaction=False, sync=False):
            return WriteBatch(self, transaction, sync)

        def iterator(self, reverse=False, prefix=None, include_key=True, include_value=True, **kw):
            if kw:
                raise HarnessError(f'plyvel iterator arguments {sorted(kw)} are not simulated')
            # LevelDB iterators read an implicit snapshot taken at creation
            world.sim.seam('db.iter')
            d = self._dict()
            prefix = bytes(prefix or b'')
            if prefix:
                hi = _next_prefix(prefix)
                if hi is None:
                    keys = list(d.irange(prefix))
                else:
                    keys = list(d.irange(prefix, hi, inclusive=(True, False)))
            else:
                keys = list(d.keys())
            if reverse:
                keys.reverse()
                if prefix and keys and keys[0] == prefix:
                    # plyvel 1.5.1 quirk (found by selftest/simdb_vs_plyvel): a reverse prefix iterator
                    # whose largest match is the prefix itself yields nothing.  ElectrumX never asks for
                    # that (history keys are prefix + 2 bytes) but the model mirrors the engine.
                    keys = []
            if len(keys) > 1 and prefix[:1] == b'h' and len(prefix) == 9:
                world.sim.probes['prefix_collision'] += 1
            if include_key and include_value:
                return iter([(k, d[k]) for k in keys])
            if include_value:
                return iter([d[k] for k in keys])
            return iter(keys)

    mod = types.ModuleType('plyvel')
    mod.DB = DB
    mod.Error = FakePlyvelError
    mod.WriteBatch = WriteBatch
    mod.__version__ = 'simulated (interface of 1.5.1)'
    mod._world = world
    return mod


def read_logical(fs, prefix, digits, file_size, start, size):
    """Harness-side read of a LogicalFile's content straight from the simulated disk (no seams)."""
    out = b''
    while size > 0:
        n, off = divmod(start, file_size)
        data = fs.files.get('%s%0*d' % (prefix, digits, n))
        if data is None:
            break
        part = bytes(data[off:off + min(size, file_size - off)])
        if not part:
            break
        out += part
        start += len(part)
        size -= len(part)
    return out


class TimeShim:
    """Replacement for the name `time` inside ElectrumX / aiorpcX modules."""

    def __init__(self, world):
        self._w = world
        import time as _t
        self.strftime = _t.strftime
        self.gmtime = _t.gmtime
        self.localtime = _t.localtime
        self.struct_time = _t.struct_time

    def time(self):
        return self._w.sim.wall()

    def monotonic(self):
        return self._w.sim.time()

    def sleep(self, s):
        raise HarnessError('real sleep attempted inside the simulation')

    def perf_counter(self):
        return self._w.sim.time()


_REAL = {}


def install_storage(world):
    """Rebind the storage / os / time seams of the ElectrumX modules to the world's models.
    With world.real_storage (self-test only) the file and database seams keep their real
    implementations (LevelDB in a scratch directory) and only the clocks are simulated."""
    import electrumx.lib.util as util
    import electrumx.server.storage as storage
    import electrumx.server.db as dbmod
    import electrumx.server.block_processor as bpmod
    import electrumx.server.daemon as dmod
    import electrumx.server.history as hmod
    import electrumx.server.mempool as mpmod
    import electrumx.server.peers as peersmod
    import electrumx.server.session as sessmod
    import electrumx.lib.server_base as sbmod
    import electrumx.lib.text as textmod
    import aiorpcx.session as arsess

    if not _REAL:
        _REAL.update(open_file=util.open_file, open_truncate=util.open_truncate, os=dbmod.os,
                     lf_init=util.LogicalFile.__init__)
    # tuning knob (per run): the size of the physical files a LogicalFile is split into - 16 MB / 2 MB in the
    # code, so that a boundary would need 200 000 blocks; here a few hundred bytes to a few KB (sizes that are
    # no multiple of the record size, so records straddle files)
    fsz = (getattr(world, 'k', None) or {}).get('file_size')
    real_init = _REAL['lf_init']

    def lf_init(self, prefix, digits, file_size):
        real_init(self, prefix, digits, fsz or file_size)
    util.LogicalFile.__init__ = lf_init if fsz else real_init
    if getattr(world, 'real_storage', None):
        if getattr(sys.modules.get('plyvel'), '_world', None) is not None:
            if _REAL.get('plyvel') is not None:
                sys.modules['plyvel'] = _REAL['plyvel']
            else:
                del sys.modules['plyvel']
        util.open_file, util.open_truncate = _REAL['open_file'], _REAL['open_truncate']
        bpmod.open_file, dmod.open_truncate = _REAL['open_file'], _REAL['open_truncate']
        dbmod.os = bpmod.os = storage.os = sessmod.os = _REAL['os']
        tshim = TimeShim(world)
        for m in (dmod, dbmod, hmod, mpmod, peersmod, sessmod, sbmod, textmod, arsess):
            m.time = tshim
        return tshim
    fs = world.fs

    def open_file(filename, create=False):
        try:
            return fs.open(filename, 'rb+')
        except FileNotFoundError:
            if create:
                return fs.open(filename, 'wb+')
            raise

    def open_truncate(filename):
        return fs.open(filename, 'wb+')

    util.open_file = open_file
    util.open_truncate = open_truncate
    bpmod.open_file = open_file
    dmod.open_truncate = open_truncate
    shim = OsShim(fs)
    dbmod.os = shim
    bpmod.os = shim
    storage.os = shim
    sessmod.os = shim
    # the real LevelDB class of electrumx.server.storage runs on a simulated plyvel module
    # (LevelDB.import_module does `import plyvel`); a database "exists" when the store has it
    shim.path.exists = lambda p: fs.exists(p) or p in world.store.dbs
    if 'plyvel' not in _REAL:
        _REAL['plyvel'] = sys.modules.get('plyvel')
    cur = sys.modules.get('plyvel')
    if getattr(cur, '_world', None) is not world:
        sys.modules['plyvel'] = make_fake_plyvel(world)
    if hasattr(storage, 'SimDB'):
        del storage.SimDB
    tshim = TimeShim(world)
    for m in (dmod, dbmod, hmod, mpmod, peersmod, sessmod, sbmod, textmod, arsess):
        m.time = tshim
    return tshim
