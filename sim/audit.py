"""Observable snapshot of an index through the public read paths named in the properties, plus a
raw table audit, compared with RefIndex.  Returns a list of Mismatch records; each property
check keeps the clauses that belong to it.  See DESIGN.md section 5.
"""
import asyncio
import struct

from sim.chaingen import ALL_HASHX, HASHX_LEN, ZERO32


class Mismatch:
    __slots__ = ('prop', 'clause', 'detail', 'keys')

    def __init__(self, prop, clause, detail, keys=()):
        self.prop, self.clause, self.detail, self.keys = prop, clause, detail, tuple(keys)

    def __repr__(self):
        return f'{self.prop}/{self.clause}: {self.detail}'


def _h(b):
    return b.hex()[:16] if isinstance(b, (bytes, bytearray)) else repr(b)


async def _limited(coro, timeout):
    return await asyncio.wait_for(coro, timeout)


async def audit_index(db, ref, *, rng=None, limit_calls=None, timeout=120.0, pool=None,
                      check_headers=True):
    """Compare every observable of `db` with `ref` (a RefIndex)."""
    out = []
    add = out.append
    pool = list(pool or ALL_HASHX)
    for hx in list(ref.history) + [h for (h, _v, _ht, _n) in ref.utxos.values()]:
        if hx not in pool:
            pool.append(hx)

    st = db.state
    # -- state (C01 counts, C03 tip/size)
    if st.height != ref.height:
        add(Mismatch('C03', 'state.height', f'{st.height} != {ref.height}'))
        return out, []      # nothing else is comparable
    if st.tip != ref.tip:
        add(Mismatch('C03', 'state.tip', f'{_h(st.tip)} != {_h(ref.tip)}'))
    if st.tx_count != ref.tx_count:
        add(Mismatch('C02', 'state.tx_count', f'{st.tx_count} != {ref.tx_count}'))
    if st.utxo_count != ref.utxo_count:
        add(Mismatch('C01', 'state.utxo_count', f'{st.utxo_count} != {ref.utxo_count}'))
    if st.chain_size != ref.chain_size:
        add(Mismatch('C01', 'state.chain_size', f'{st.chain_size} != {ref.chain_size}'))

    # -- UTXOs per script hash (multisets)
    for hx in pool:
        try:
            got = await _limited(db.all_utxos(hx), timeout)
        except asyncio.TimeoutError:
            add(Mismatch('C01', 'all_utxos.nonterminating', _h(hx), [hx]))
            continue
        gotl = sorted((u.tx_hash, u.tx_pos, u.value, u.height) for u in got)
        exp = ref.utxos_of(hx)
        if gotl != exp:
            add(Mismatch('C01', 'all_utxos', f'{_h(hx)}: got {len(gotl)} exp {len(exp)} '
                         f'extra={[(_h(a), b, c, d) for a, b, c, d in gotl if (a, b, c, d) not in exp][:3]} '
                         f'missing={[(_h(a), b, c, d) for a, b, c, d in exp if (a, b, c, d) not in gotl][:3]}',
                         [hx]))
        # tx_num of each UTXO must map back to its tx
        for u in got:
            r = ref.utxos.get((u.tx_hash, u.tx_pos))
            if r is not None and r[3] != u.tx_num:
                add(Mismatch('C01', 'all_utxos.tx_num', f'{_h(u.tx_hash)}:{u.tx_pos} '
                             f'{u.tx_num} != {r[3]}', [hx]))

    # -- lookup_utxos: unspent -> (hashX, value); spent/unknown/unindexed -> None
    unspent = list(ref.utxos)
    spent = [op for op in ref.out_truth if op not in ref.utxos]
    if rng is not None:
        if len(unspent) > 80:
            unspent = rng.sample(unspent, 80)
        if len(spent) > 40:
            spent = rng.sample(spent, 40)
    unknown = [(bytes([7]) * 32, 0), (ZERO32, 0xffffffff)]
    if ref.utxos:
        op = next(iter(ref.utxos))
        unknown.append((op[0], op[1] + 1000))
        unknown.append((op[0][:4] + bytes(28), op[1]))     # same compressed prefix, other tx
    prevouts = unspent + spent + unknown
    try:
        res = await _limited(db.lookup_utxos(prevouts), timeout)
        for op, r in zip(prevouts, res):
            e = ref.utxos.get(op)
            exp = (e[0], e[1]) if e is not None else None
            if r != exp:
                add(Mismatch('C01', 'lookup_utxos', f'{_h(op[0])}:{op[1]} got {r} exp {exp}',
                             [e[0]] if e else []))
    except asyncio.TimeoutError:
        add(Mismatch('C01', 'lookup_utxos.nonterminating', ''))

    # -- histories with limits
    for hx in pool:
        exp = ref.history.get(hx, [])
        n = len(exp)
        limits = [None, 0, 1, 2, n - 1, n, n + 1, 1000]
        if rng is not None and n > 3:
            limits.append(rng.randrange(2, n))
        for lim in dict.fromkeys(x for x in limits if x is None or x >= 0):
            try:
                got = await _limited(db.limited_history(hx, limit=lim), timeout)
            except asyncio.TimeoutError:
                add(Mismatch('C02', 'limited_history.nonterminating', f'{_h(hx)} limit={lim}',
                             [hx]))
                break
            e = exp if lim is None else exp[:lim]
            if got != e:
                add(Mismatch('C02', 'limited_history',
                             f'{_h(hx)} limit={lim}: got {len(got)} exp {len(e)} first diff at '
                             f'{next((i for i, (a, b) in enumerate(zip(got, e)) if a != b), min(len(got), len(e)))}',
                             [hx]))
                break

    # -- tx number map and per-height tx ids (called on worker threads like the server does)
    loop = asyncio.get_event_loop()

    def read_tx_map():
        bad = []
        for n in range(ref.tx_count):
            got = db.fs_tx_hash(n)
            if got != ref.txs[n]:
                bad.append((n, got, ref.txs[n]))
                if len(bad) > 3:
                    break
        beyond = db.fs_tx_hash(ref.tx_count)
        return bad, beyond

    bad, beyond = await loop.run_in_executor(None, read_tx_map)
    for n, got, exp in bad:
        add(Mismatch('C02', 'fs_tx_hash', f'tx_num {n}: got ({_h(got[0])},{got[1]}) '
                     f'exp ({_h(exp[0])},{exp[1]})'))
    if beyond[0] is not None:
        add(Mismatch('C02', 'fs_tx_hash.beyond', f'tx_num {ref.tx_count} -> {_h(beyond[0])}'))
    for h in range(ref.height + 1):
        got = await db.tx_hashes_at_blockheight(h)
        if got != ref.block_txids[h]:
            add(Mismatch('C02', 'tx_hashes_at_blockheight', f'height {h}: {len(got)} vs '
                         f'{len(ref.block_txids[h])}'))
    try:
        await db.tx_hashes_at_blockheight(ref.height + 1)
        add(Mismatch('C02', 'tx_hashes_at_blockheight.beyond', 'no error beyond tip'))
    except db.DBError:
        pass

    # -- headers
    if check_headers:
        hdrs, n = await db.read_headers(0, ref.height + 5)
        if n != ref.height + 1 or hdrs != b''.join(ref.headers):
            add(Mismatch('C03', 'read_headers', f'count {n} exp {ref.height + 1}; equal='
                         f'{hdrs == b"".join(ref.headers)}'))
        if ref.height >= 0:
            hashes = await db.fs_block_hashes(0, ref.height + 1)
            from sim.chaingen import dsha
            if hashes != [dsha(h) for h in ref.headers]:
                add(Mismatch('C03', 'fs_block_hashes', 'differ'))

    # -- raw table audit
    def raw():
        res = []
        u_rows = {}
        h_rows = {}
        for k, v in db.utxo_db.iterator(prefix=b'u'):
            u_rows[k] = v
        for k, v in db.utxo_db.iterator(prefix=b'h'):
            h_rows[k] = v
        exp_u = {}
        exp_h = {}
        for (txid, idx), (hx, val, _ht, num) in ref.utxos.items():
            suffix = struct.pack('<I', idx) + struct.pack('<Q', num)[:5]
            exp_u[b'u' + hx + suffix] = struct.pack('<Q', val)
            exp_h[b'h' + txid[:4] + suffix] = hx
        if u_rows != exp_u:
            extra = [k for k in u_rows if k not in exp_u][:3]
            missing = [k for k in exp_u if k not in u_rows][:3]
            res.append(Mismatch('C01', 'raw.u', f'{len(u_rows)} rows exp {len(exp_u)} extra='
                                f'{[e.hex() for e in extra]} missing={[m.hex() for m in missing]}',
                                [k[1:1 + HASHX_LEN] for k in extra + missing]))
        if h_rows != exp_h:
            extra = [k for k in h_rows if k not in exp_h][:3]
            missing = [k for k in exp_h if k not in h_rows][:3]
            res.append(Mismatch('C01', 'raw.h', f'{len(h_rows)} rows exp {len(exp_h)} extra='
                                f'{[e.hex() for e in extra]} missing={[m.hex() for m in missing]}',
                                [h_rows.get(k) or exp_h.get(k) for k in extra + missing]))
        # history rows
        rows = {}
        for k, v in db.history.db.iterator(prefix=b''):
            if len(k) != HASHX_LEN + 2:
                continue
            rows.setdefault(k[:-2], []).append(v)
        txnum = {txid: n for n, (txid, _h) in enumerate(ref.txs)}
        for hx, parts in rows.items():
            cat = b''.join(parts)
            nums = [int.from_bytes(cat[i:i + 5], 'little') for i in range(0, len(cat), 5)]
            exp = [txnum[t] for (t, _ht) in ref.history.get(hx, [])]
            if len(cat) % 5 or nums != exp:
                res.append(Mismatch('C02', 'raw.hist', f'{_h(hx)}: rows give {nums[:8]}.. '
                                    f'({len(nums)}) exp {exp[:8]}.. ({len(exp)})', [hx]))
            if any(not p for p in parts):
                pass    # empty rows are harmless
        for hx in ref.history:
            if ref.history[hx] and hx not in rows:
                res.append(Mismatch('C02', 'raw.hist.missing', _h(hx), [hx]))
        undo = [struct.unpack('>I', k[1:])[0] for k, _v in db.utxo_db.iterator(prefix=b'U')]
        return res, undo

    res, undo = await loop.run_in_executor(None, raw)
    out.extend(res)
    return out, undo


async def snapshot(db, pool, timeout=300.0):
    """Every observable of an index as plain data (for the fresh-server differential of C03)."""
    st = db.state
    out = dict(height=st.height, tip=st.tip, tx_count=st.tx_count, utxo_count=st.utxo_count,
               chain_size=st.chain_size)
    hdrs, n = await db.read_headers(0, st.height + 1)
    out['headers'] = (n, hdrs)
    out['block_txids'] = [await db.tx_hashes_at_blockheight(h) for h in range(st.height + 1)]
    out['utxos'] = {}
    out['history'] = {}
    for hx in pool:
        us = await _limited(db.all_utxos(hx), timeout)
        out['utxos'][hx] = sorted((u.tx_hash, u.tx_pos, u.value, u.height, u.tx_num) for u in us)
        out['history'][hx] = await _limited(db.limited_history(hx, limit=None), timeout)
    loop = asyncio.get_event_loop()

    def raw():
        return (sorted(db.utxo_db.iterator(prefix=b'u')), sorted(db.utxo_db.iterator(prefix=b'h')),
                {k[:-2] for k, _v in db.history.db.iterator(prefix=b'') if len(k) == HASHX_LEN + 2})
    out['raw_u'], out['raw_h'], out['hist_keys'] = await loop.run_in_executor(None, raw)
    return out


def digest_index(db_snapshot):
    """Stable digest of an observable snapshot (for resume == uninterrupted comparisons)."""
    import hashlib
    return hashlib.sha256(repr(db_snapshot).encode()).hexdigest()
