"""Simulated TCP: listeners, reliable FIFO byte streams with scheduler-chosen latency and
re-segmentation, close/abort, flow control; model Electrum clients speaking real JSON-RPC bytes.
See DESIGN.md 3.5 and 4.3.
"""
import asyncio
import json
import socket

from sim.kernel import SimLoop, HarnessError


class Conn:
    """One TCP connection.  Side A is an asyncio protocol inside the server's event loop; side B
    is a simulator-level endpoint object (on_data / on_close callbacks)."""

    def __init__(self, net, proto_a, endpoint_b, addr_a, addr_b, latency):
        self.net, self.sim = net, net.sim
        self.proto = proto_a
        self.ep = endpoint_b
        self.addr_a, self.addr_b = addr_a, addr_b
        self.latency = latency
        self.a_closed = False        # server side closed
        self.b_closed = False
        self.alive = True            # False once the server process is dead
        self.t_ab = 0.0              # FIFO: time of the latest scheduled delivery A->B
        self.t_ba = 0.0
        self.read_paused = False
        self.pending_ba = []
        self.transport = ATransport(self)

    # data written by the server side
    def a_write(self, data):
        if self.a_closed or not data:
            return
        sim = self.sim
        segs = self._segment(bytes(data))
        for seg in segs:
            t = max(self.t_ab, sim.now + sim.ch.delay(*self.latency))
            self.t_ab = t
            sim.at(t - sim.now, lambda seg=seg: self._deliver_b(seg))

    def _deliver_b(self, seg):
        if not self.b_closed:
            self.ep.on_data(self, seg)

    # data written by the simulated remote side
    def b_write(self, data):
        if self.b_closed or not data:
            return
        sim = self.sim
        for seg in self._segment(bytes(data)):
            t = max(self.t_ba, sim.now + sim.ch.delay(*self.latency))
            self.t_ba = t
            sim.at(t - sim.now, lambda seg=seg: self._deliver_a(seg))

    def _deliver_a(self, seg):
        if self.a_closed or not self.alive:
            return
        if self.read_paused:
            self.pending_ba.append(seg)
            return
        try:
            self.proto.data_received(seg)
        except Exception as e:     # asyncio: "Fatal error: protocol.data_received() call failed."
            self.sim.stats['proto_exception'] += 1
            self.sim.log('PROTOEXC', type(e).__name__)
            self.net.proto_errors.append(repr(e))
            self.a_close(exc=e)

    def _segment(self, data):
        sim = self.sim
        if len(data) < 2 or not self.net.resegment:
            return [data]
        n = sim.ch.choose(3)         # 0 = deliver whole
        if n == 0:
            return [data]
        cuts = sorted({1 + sim.ch.choose(len(data) - 1) for _ in range(n)})
        out, prev = [], 0
        for c in cuts:
            out.append(data[prev:c])
            prev = c
        out.append(data[prev:])
        return out

    def resume_reading(self):
        self.read_paused = False
        pend, self.pending_ba = self.pending_ba, []
        for seg in pend:
            self._deliver_a(seg)

    # close initiated by the server side
    def a_close(self, exc=None):
        if self.a_closed:
            return
        self.a_closed = True
        sim = self.sim
        if self.alive:
            loop = sim.loop
            loop.call_soon(self._lost, exc)
        t = max(self.t_ab, sim.now + sim.ch.delay(*self.latency))
        sim.at(t - sim.now, self._b_sees_close)

    def _lost(self, exc):
        try:
            self.proto.connection_lost(exc)
        except Exception as e:
            self.net.proto_errors.append(repr(e))

    def _b_sees_close(self):
        if not self.b_closed:
            self.b_closed = True
            self.ep.on_close(self)

    # close initiated by the remote side
    def b_close(self):
        if self.b_closed:
            return
        self.b_closed = True
        sim = self.sim
        t = max(self.t_ba, sim.now + sim.ch.delay(*self.latency))
        sim.at(t - sim.now, self._a_sees_close)

    def _a_sees_close(self):
        if not self.a_closed and self.alive:
            self.a_closed = True
            self._lost(None)

    def server_died(self):
        """The server process is gone: the remote side sees a reset."""
        self.alive = False
        self.a_closed = True
        self.sim.at(self.sim.ch.delay(*self.latency), self._b_sees_close)


class ATransport(asyncio.Transport):
    def __init__(self, conn):
        super().__init__()
        self.conn = conn
        self._closing = False

    def get_extra_info(self, name, default=None):
        if name == 'peername':
            return self.conn.addr_b
        if name == 'sockname':
            return self.conn.addr_a
        return default

    def write(self, data):
        net = self.conn.net
        if net.on_server_write is not None:
            net.on_server_write(self.conn, bytes(data))
        self.conn.a_write(data)

    def writelines(self, seq):
        self.write(b''.join(seq))

    def is_closing(self):
        return self._closing

    def close(self):
        if not self._closing:
            self._closing = True
            self.conn.a_close()

    def abort(self):
        self.close()

    def pause_reading(self):
        self.conn.read_paused = True

    def resume_reading(self):
        self.conn.resume_reading()

    def can_write_eof(self):
        return False

    def get_write_buffer_size(self):
        return 0

    def set_write_buffer_limits(self, high=None, low=None):
        pass


class SimServer:
    def __init__(self, net, key):
        self.net, self.key = net, key

    def close(self):
        self.net.listeners.pop(self.key, None)

    async def wait_closed(self):
        pass

    def is_serving(self):
        return self.key in self.net.listeners


class SimNet:
    def __init__(self, sim, latency=(0.001, 0.05), resegment=True):
        self.sim = sim
        self.latency = latency
        self.resegment = resegment
        self.listeners = {}          # port -> protocol factory
        self.conns = []
        self.remote = {}             # (host, port) -> fn(conn_request) -> endpoint or exception
        self.names = {}              # host name -> list of ip strings (or an exception instance)
        self.proto_errors = []
        self.on_server_write = None  # monitor hook: fn(conn, bytes) at the instant of writing
        self.client_port = 40000

    def reset_server_side(self):
        """Server process died or exited: listeners vanish, connections reset."""
        self.listeners.clear()
        for c in self.conns:
            if c.alive and not c.a_closed:
                c.server_died()
            c.alive = False
        self.conns = [c for c in self.conns if not c.b_closed]

    # incoming connection from a simulated client
    def connect(self, port, endpoint, addr=('8.8.4.4', None)):
        factory = self.listeners.get(port)
        if factory is None:
            return None
        self.client_port += 1
        addr_b = (addr[0], addr[1] or self.client_port)
        proto = factory()
        conn = Conn(self, proto, endpoint, ('10.0.0.1', port), addr_b, self.latency)
        self.conns.append(conn)
        proto.connection_made(conn.transport)
        return conn

    # outgoing connection made by the server (peers)
    async def create_connection(self, protocol_factory, host, port, **kw):
        sim = self.sim
        await asyncio.sleep(sim.ch.delay(*self.latency))
        target = self.remote.get((str(host), port))
        if target is None:
            # resolve names
            ips = self.names.get(str(host))
            if isinstance(ips, list):
                for ip in ips:
                    target = self.remote.get((ip, port))
                    if target is not None:
                        host = ip
                        break
        if target is None:
            raise ConnectionRefusedError(111, f'Connect call failed {(host, port)}')
        ep = target(host, port, kw)
        if isinstance(ep, BaseException):
            raise ep
        if ep == 'hang':
            await asyncio.sleep(3600)
            raise TimeoutError('timed out')
        proto = protocol_factory()
        self.client_port += 1
        conn = Conn(self, proto, ep, ('10.0.0.1', self.client_port), (str(host), port),
                    self.latency)
        self.conns.append(conn)
        proto.connection_made(conn.transport)
        ep.on_connect(conn)
        return conn.transport, proto

    async def getaddrinfo(self, host, port, *, family=0, type=0, proto=0, flags=0):
        sim = self.sim
        # run the real argument conversion (embedded NUL, IDNA) offline and deterministically
        try:
            infos = socket.getaddrinfo(host, port, family=family, type=type, proto=proto,
                                       flags=flags | socket.AI_NUMERICHOST)
            await asyncio.sleep(sim.ch.delay(0.0, 0.01))
            return infos
        except socket.gaierror:
            pass
        await asyncio.sleep(sim.ch.delay(0.001, 0.2))
        ips = self.names.get(host if isinstance(host, str) else host.decode('ascii', 'replace'))
        if ips is None:
            raise socket.gaierror(socket.EAI_NONAME, 'Name or service not known')
        if isinstance(ips, BaseException):
            raise ips
        out = []
        for ip in ips:
            fam = socket.AF_INET6 if ':' in ip else socket.AF_INET
            sockaddr = (ip, port, 0, 0) if fam == socket.AF_INET6 else (ip, port)
            out.append((fam, type or socket.SOCK_STREAM, 6, '', sockaddr))
        return out


class NetLoop(SimLoop):
    def __init__(self, sim, net):
        super().__init__(sim)
        self.net = net

    async def create_server(self, protocol_factory, host=None, port=None, **kw):
        if port in self.net.listeners:
            raise OSError(98, 'address already in use')
        self.net.listeners[port] = protocol_factory
        return SimServer(self.net, port)

    async def create_connection(self, protocol_factory, host=None, port=None, **kw):
        return await self.net.create_connection(protocol_factory, host, port, **kw)

    async def getaddrinfo(self, host, port, *, family=0, type=0, proto=0, flags=0):
        return await self.net.getaddrinfo(host, port, family=family, type=type, proto=proto,
                                          flags=flags)


class SimClient:
    """A model Electrum (or admin RPC) client.  Simulator-level object: survives server crashes.
    Records every message with the simulator's global event number."""

    def __init__(self, net, name, port=50001, addr=('8.8.4.4', None)):
        self.net, self.sim, self.name, self.port, self.addr = net, net.sim, name, port, addr
        self.conn = None
        self.buf = b''
        self.next_id = 0
        self.sent = {}        # id -> dict(method, params, ev_sent, t_sent)
        self.replies = {}     # id -> dict(result|error, ev, t)
        self.notifs = []      # (ev, method, params)
        self.closed_at = None
        self.connects = 0
        self.garbage = []
        self.on_reply = {}    # id -> callback(reply message)
        self.on_notification = None
        self.on_any_reply = None       # (client, request record or None, reply record)
        self.sub_status = {}  # scripthash hex -> (ev, status) last held
        self.subscribed = set()
        self.header = None    # (ev, {'hex','height'})
        self.headers_subscribed = False

    @property
    def connected(self):
        return self.conn is not None and not self.conn.b_closed

    def connect(self):
        self.conn = self.net.connect(self.port, self, self.addr)
        if self.conn is None:
            return False
        self.buf = b''
        self.connects += 1
        self.closed_at = None
        # a new connection has no subscriptions
        self.subscribed = set()
        self.sub_status = {}
        self.headers_subscribed = False
        self.header = None
        self.sim.log('C+', self.name)
        return True

    def disconnect(self):
        if self.conn is not None:
            self.conn.b_close()
            self.sim.log('C-', self.name)
            self.subscribed = set()
            self.headers_subscribed = False

    def send(self, method, params=(), cb=None, raw=None):
        if not self.connected:
            return None
        rid = self.next_id
        self.next_id += 1
        if raw is None:
            msg = {'jsonrpc': '2.0', 'id': rid, 'method': method, 'params': params
                   if isinstance(params, dict) else list(params)}
            raw = json.dumps(msg).encode()
        self.sent[rid] = dict(method=method, params=params, ev=self.sim.steps, t=self.sim.now,
                              conn=self.connects)
        if cb is not None:
            self.on_reply[rid] = cb
        self.sim.log('C>', self.name, rid, method)
        self.conn.b_write(raw + b'\n')
        return rid

    # -- endpoint callbacks
    def on_data(self, conn, data):
        if conn is not self.conn:
            return
        self.buf += data
        while b'\n' in self.buf:
            line, self.buf = self.buf.split(b'\n', 1)
            try:
                msg = json.loads(line)
            except ValueError:
                self.garbage.append(line)
                continue
            self._message(msg)

    def _message(self, msg):
        ev = self.sim.steps
        if isinstance(msg, dict) and 'method' in msg:
            method, params = msg['method'], msg.get('params')
            self.notifs.append((ev, method, params))
            self.sim.log('C!', self.name, method)
            if method == 'blockchain.scripthash.subscribe' and len(params) == 2:
                self.sub_status[params[0]] = (ev, params[1])
            elif method == 'blockchain.headers.subscribe' and params:
                self.header = (ev, params[0])
            if self.on_notification:
                self.on_notification(self, method, params)
        elif isinstance(msg, dict) and 'id' in msg:
            rid = msg['id']
            rec = dict(ev=ev, t=self.sim.now)
            if 'error' in msg and msg['error'] is not None:
                rec['error'] = msg['error']
            else:
                rec['result'] = msg.get('result')
            self.replies[rid] = rec
            self.sim.log('C<', self.name, rid, 'error' in rec)
            req = self.sent.get(rid)
            if req is not None and 'result' in rec:
                if req['method'] == 'blockchain.scripthash.subscribe':
                    sh = req['params'][0]
                    self.subscribed.add(sh)
                    # what the client holds is what arrived last (TCP keeps the order of sending): a reply that
                    # comes after a notification replaces it, as in a real client
                    self.sub_status[sh] = (ev, rec['result'])
                elif req['method'] == 'blockchain.scripthash.unsubscribe':
                    sh = req['params'][0]
                    self.subscribed.discard(sh)
                    self.sub_status.pop(sh, None)
                elif req['method'] == 'blockchain.headers.subscribe':
                    self.headers_subscribed = True
                    self.header = (ev, rec['result'])
            if self.on_any_reply is not None:
                self.on_any_reply(self, req, rec)
            cb = self.on_reply.pop(rid, None)
            if cb is not None:
                cb(rec)
        else:
            self.garbage.append(msg)

    def on_close(self, conn):
        if conn is self.conn:
            self.closed_at = self.sim.steps
            self.sim.log('Cx', self.name)
            self.subscribed = set()
            self.headers_subscribed = False
            # requests still unanswered will never be answered
            cbs, self.on_reply = self.on_reply, {}
            for rid in sorted(cbs):
                cbs[rid](dict(error={'code': 'connection closed'}, closed=True, ev=self.sim.steps,
                              t=self.sim.now))

    def pending(self):
        return [rid for rid, r in self.sent.items() if rid not in self.replies
                and r['conn'] == self.connects]
