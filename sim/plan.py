"""Plan interpreter shared by the system-level families.  A plan is a list of explicit,
self-describing JSON operations with *relative* arguments, so that deleting one operation leaves
the others meaningful (which is what makes shrinking work).  See DESIGN.md 3.1.
"""
import collections
import random

from sim.world import World
from sim.kernel import HarnessError
from sim.chaingen import RefIndex, ALL_HASHX, SCRIPTS, scripthash_hex
from sim import audit as auditmod


class Violation:
    __slots__ = ('prop', 'clause', 'message', 'keys', 'step', 'repro')

    def __init__(self, prop, clause, message, keys=(), step=None):
        self.prop, self.clause, self.message, self.keys, self.step = (
            prop, clause, message, tuple(keys), step)
        self.repro = None       # (case, choices) when the violation belongs to a sub-run

    def signature(self):
        return f'{self.prop}/{self.clause}'

    def to_json(self):
        return dict(prop=self.prop, clause=self.clause, message=self.message[:600],
                    step=self.step)

    def __repr__(self):
        return f'{self.prop}/{self.clause}: {self.message}'


class Result:
    def __init__(self):
        self.violations = []
        self.probes = collections.Counter()
        self.stats = collections.Counter()
        self.digest = None
        self.vt = 0.0
        self.choices = None
        self.nontrivial = False
        self.isig = None          # interleaving signature
        self.notes = []
        self.trace = None
        self.log = None
        self.harness_error = None


class Driver:
    """Executes a plan against a World.  Subclasses add operations (op_<name>) and oracles."""

    SYNC_LIMIT = 900.0           # virtual seconds allowed for catch-up in the fault-free tail

    def __init__(self, case, chooser, trace=False, logs=False):
        self.case = case
        self.w = World(chooser, case.get('knobs'), trace=trace)
        self.res = Result()
        self.isig_items = []
        self.poker = None
        self.pending_bg = 0
        self.clients = {}
        if logs:
            self.w.capture_logs()
        self.w.on_start.append(self._on_server_start)
        self.w.on_end.append(self._on_server_end)

    # -- infrastructure
    def run(self):
        w, res = self.w, self.res
        try:
            self.setup()
            for i, op in enumerate(self.case['plan']):
                self.cur = i
                w.sim.log('OP', i, op.get('op'))
                getattr(self, 'op_' + op['op'])(op)
                if self.stop_after_violation and res.violations:
                    break
                if self.abandoned:
                    # the run left what the property quantifies over: nothing further is judged
                    break
            self.teardown()
        except HarnessError as e:
            res.harness_error = repr(e)
        finally:
            try:
                w.finish()
            except BaseException as e:      # noqa: B902
                res.harness_error = res.harness_error or ('finish: ' + repr(e))
        sim = w.sim
        res.stats.update(sim.stats)
        res.probes.update(sim.probes)
        res.digest = sim.digest()
        res.vt = sim.now
        res.choices = sim.ch.rec
        res.stats['steps'] = sim.steps
        res.stats['choices'] = len(sim.ch.rec)
        res.stats['incarnations'] = w.incarnations
        res.isig = hash(tuple(self.isig_items)) & 0xffffffffffff
        res.trace = sim.trace
        if w.logring is not None:
            res.log = w.logring.records
        return res

    stop_after_violation = True
    abandoned = False

    def setup(self):
        pass

    def teardown(self):
        pass

    def violate(self, prop, clause, message, keys=()):
        self.res.violations.append(Violation(prop, clause, message, keys, getattr(self, 'cur', None)))
        self.w.sim.log('VIOLATION', prop, clause)

    def probe(self, name, n=1):
        self.res.probes[name] += n

    def mark(self, *items):
        """Contribute to the interleaving signature."""
        self.isig_items.append(items)

    def _on_server_start(self, w):
        pass

    def _on_server_end(self, w):
        pass

    # -- chain helpers
    def rng_for(self, op):
        return random.Random(op.get('seed', 0))

    def mine_now(self, op):
        w = self.w
        rng = self.rng_for(op)
        tip = w.daemon.tip
        ntxs = op.get('ntx', [2])
        include_mp = op.get('confirm', 1.0)
        for i in range(op.get('n', 1)):
            if include_mp == 'parents':
                # only transactions all of whose inputs are confirmed: children stay behind in the mempool
                include = [t for t in w.daemon.mempool.values()
                           if not any(a in w.daemon.mempool for a, _ in t.prevouts())]
            else:
                include = [t for t in w.daemon.mempool.values() if rng.random() < include_mp]
            if op.get('burn'):
                tip = w.gen.make_block(tip, rng, 0, include=(), collide=False, burn=True)
                continue
            tip = w.gen.make_block(tip, rng, ntxs[i % len(ntxs)], include=include,
                                   big_at=op.get('big_at'), big=op.get('big', 0))
        w.daemon.set_tip(tip)
        self.hmax = max(getattr(self, 'hmax', -1), tip.height)
        self.mark('mine', tip.height)

    def fork_cap(self):
        """Deepest fork the properties quantify over right now: within the reorg limit counted
        from the highest height the daemon ever reported (every block above that fork point was
        indexed with undo information) and on a chain at least twice as high as the fork is deep
        (C03's quantifier; below that _calc_reorg_range walks to genesis)."""
        w = self.w
        d = w.daemon.height
        self.hmax = max(getattr(self, 'hmax', -1), d)
        return min(w.k['reorg_limit'] - (self.hmax - d), d // 2)

    def server_view_depth(self, base):
        """(blocks the server would have to undo to reach a branch growing from `base`, height of its tip), from
        its in-memory and its stored tip, whichever is worse; (None, None) if it has no known tip yet."""
        w = self.w
        tips = []
        srv = w.server
        if srv is not None and srv.bp is not None and srv.bp.state is not None:
            tips.append(srv.bp.state.tip)
        if srv is not None and srv.db is not None and srv.db.state is not None:
            tips.append(srv.db.state.tip)
        on_new = {b.hash for b in base.branch()}
        worst = (None, None)
        for t in tips:
            blk = w.tree.blocks.get(t)
            if blk is None:
                continue
            anc = blk
            while anc is not None and anc.hash not in on_new:
                anc = anc.parent
            ds = blk.height - (anc.height if anc is not None else -1)
            if worst[0] is None or ds > worst[0]:
                worst = (ds, blk.height)
        return worst

    def fork_now(self, op):
        """Switch the daemon to a branch forking `depth` blocks below its tip.  `extra` is the
        length of the new branch minus the depth (>= 1: strictly longer, the realistic case;
        <= 0: equal or shorter, followed by a later extension)."""
        w = self.w
        rng = self.rng_for(op)
        chain = w.daemon.chain()
        cap = self.fork_cap()
        if cap < 1:
            self.probe('fork.skipped_by_quantifier')
            return None
        depth = max(1, min(op['depth'], cap))
        base = chain[len(chain) - 1 - depth]
        # ... and the same two bounds seen from where the server is: it may still sit on a branch the daemon
        # left earlier (a switch to a shorter branch goes unnoticed until the daemon's chain grows), so that
        # successive forks add up to one deeper reorganisation for it
        ds, hs = self.server_view_depth(base)
        if ds and (ds > w.k['reorg_limit'] - max(0, self.hmax - hs) or hs < 2 * ds + 2):
            self.probe('fork.skipped_by_quantifier.server_view')
            return None
        orphaned = [t for b in chain[len(chain) - depth:] for t in b.txs if not t.is_coinbase]
        length = max(1, depth + op.get('extra', 1))
        tip = base
        ntxs = op.get('ntx', [3])
        for i in range(length):
            include = [t for t in orphaned if rng.random() < op.get('remine', 0.5)]
            rng.shuffle(include)
            tip = w.gen.make_block(tip, rng, ntxs[i % len(ntxs)], include=include)
        w.daemon.set_tip(tip)
        self.hmax = max(self.hmax, tip.height)
        self.mark('fork', depth, length)
        self.probe('fork.depth%d' % min(depth, 9))
        if length <= depth:
            self.probe('fork.exotic')
        return depth, length

    def _bg(self, at, fn):
        """Schedule fn at now+at as a background daemon event."""
        self.pending_bg += 1

        def fire():
            self.pending_bg -= 1
            fn()
        self.w.sim.at(at, fire)

    # -- common operations
    def op_mine(self, op):
        if op.get('at'):
            self._bg(op['at'], lambda: self.mine_now(op))
        else:
            self.mine_now(op)

    def op_fork(self, op):
        if op.get('at'):
            self._bg(op['at'], lambda: self.fork_now(op))
        else:
            self.fork_now(op)

    def op_start(self, op):
        if self.w.server is None:
            self.w.start()

    def op_wait(self, op):
        self.w.run(None, op['dt'])

    def op_poker(self, op):
        """Cache-pressure pokes at scheduler-chosen instants: exactly what the independent
        check_cache_size_loop task does (sets bp.force_flush_arg at arbitrary instants)."""
        w = self.w
        if self.poker is not None:
            self.poker['on'] = False
        if not op.get('on', True):
            self.poker = None
            return
        state = dict(on=True)
        self.poker = state
        lo, hi = op.get('period', (0.01, 0.5))
        p_full = op.get('p_full', 0.5)

        def fire():
            if not state['on']:
                return
            srv = w.server
            if srv is not None and srv.bp is not None and srv.exit is None:
                full = w.sim.ch.chance(p_full)
                srv.bp.force_flush_arg = full
                w.sim.stats['poke.full' if full else 'poke.hist'] += 1
            w.sim.at(w.sim.ch.delay(lo, hi), fire)
        w.sim.at(w.sim.ch.delay(lo, hi), fire)

    def op_poke(self, op):
        srv = self.w.server
        if srv is not None and srv.bp is not None:
            srv.bp.force_flush_arg = bool(op.get('full', True))

    def sync_limit(self, limit=None):
        """The catch-up bound grows with the work that may be left: every block to be fetched costs a few
        daemon round trips of up to the configured maximum latency each (prefetch may be 1)."""
        w = self.w
        lat = max(w.k['daemon_latency'][1], 0.0) if w.k.get('daemon_latency') else 0.0
        self.last_sync_limit = (limit or self.SYNC_LIMIT) + (w.daemon.height + 1) * 8 * lat
        return self.last_sync_limit

    def hazard_active(self):
        """True once this run has passed the call site of an open known finding of its own family (then
        differences are judged by that family's property only, where the finding is filed)."""
        return getattr(self, 'hazard_rows_above', None) is not None or bool(getattr(self, 'half_undone', None))

    def disarm(self):
        """No daemon-side trigger or slow reply survives into the fault-free tail."""
        self.w.dnet.rpc_triggers.clear()
        self.w.dnet.slow.clear()

    def op_on_rpc(self, op):
        """Fault placement inside an operation: right after the daemon has answered the (skip+1)-th next
        request of `method`, apply the nested daemon-side changes (`then`: mine / fork / mp_add / mp_evict /
        slow).  Nothing happens if no such request arrives before the next quiescence."""
        def fn():
            self.probe('on_rpc.fired.' + op['method'])
            for sub in op['then']:
                self.nested(sub)
        self.w.dnet.rpc_triggers.append(dict(method=op['method'], skip=op.get('skip', 0), fn=fn))

    def nested(self, sub):
        kind = sub['op']
        if getattr(self.w.daemon, 'frozen', False):
            return
        if kind == 'mine':
            self.mine_now(sub)
        elif kind == 'fork':
            self.fork_now(sub)
        elif kind == 'slow':
            self.w.dnet.slow.append([sub['method'], sub['delay']])
        elif kind in ('mp_add', 'mp_evict'):
            getattr(self, 'op_' + kind)({k: v for k, v in sub.items() if k != 'at'})

    def op_daemon_outage(self, op):
        """All daemon URLs (or one) are unreachable / warming up / refusing service for `dt` virtual seconds."""
        w = self.w

        def begin():
            if getattr(w.daemon, 'frozen', False):
                return
            urls = list(w.urls) if op.get('which', 'all') == 'all' else [w.urls[op['which'] % len(w.urls)]]
            for u in urls:
                w.faults.per_url[u] = op['state']
            self.probe('outage.' + op['state'])
            w.sim.stats['dfault.outage'] += 1

            def end():
                for u in urls:
                    w.faults.per_url.pop(u, None)
            self._bg(op['dt'], end)
        if op.get('at'):
            self._bg(op['at'], begin)
        else:
            begin()

    def op_slow(self, op):
        self.w.dnet.slow.append([op['method'], op['delay']])

    def quiesce(self, limit=None):
        """Fault-free tail: freeze the daemon, stop faults, let the server catch up.  Restarts a
        dead server like a supervisor would.  Returns True when caught up within the window."""
        w = self.w
        limit = self.sync_limit(limit)
        self.disarm()
        w.faults.enabled = False
        w.faults.script = []
        w.faults.per_url.clear()     # outages end
        w.sim.stall_p = 0.0          # a stalled disk is a fault too
        w.sim.line_stall_p = 0.0     # ... and so is a thread descheduled for seconds
        w.sim.queue_p = 0.0
        w.sim.stall_boost = None
        end = w.sim.now + limit
        # let background daemon events fire first
        if self.pending_bg:
            w.run(lambda: self.pending_bg == 0, limit)
        restarts = 0
        while w.sim.now < end:
            if w.server is None:
                if restarts >= 3:
                    return False
                restarts += 1
                self.probe('supervisor.restart')
                w.start()
            r = w.run(w.caught_up, end - w.sim.now)
            if r == 'pred':
                return True
            if r == 'timeout':
                return False
        return False

    def do_audit(self, props, label='audit'):
        """Audit the running, caught-up server against RefIndex(daemon chain)."""
        w = self.w
        srv = w.server
        chain = w.daemon.chain()
        ref = RefIndex(chain, w.k['activation'])
        rng = random.Random(len(chain) * 7919 + self.cur)
        pre = w.sim.preempt
        w.sim.preempt = False       # the audit's own reads are not under test
        try:
            st, val = w.call(auditmod.audit_index(srv.db, ref, rng=rng), timeout=3000.0)
        finally:
            w.sim.preempt = pre
        if st != 'ok':
            if st == 'exc':
                self.violate(props[0], f'{label}.raised', f'audit raised {val!r}')
            elif st == 'timeout':
                self.violate(props[0], f'{label}.nonterminating', 'observable does not terminate')
            else:
                self.violate(props[0], f'{label}.server_died', f'server {st} during audit')
            return None
        mism, undo = val
        for m in mism:
            if self.ATTRIBUTE_TO:
                # in this family every difference from a clean index is a failure of the property
                # whose scenario it is (reorg, crash, shutdown ...)
                self.violate(self.ATTRIBUTE_TO, m.clause, m.detail, m.keys)
                if m.prop != self.ATTRIBUTE_TO and m.prop in ('C01', 'C02') and not self.hazard_active():
                    # ... and of the property the observable belongs to (counted by that property's check when
                    # it runs this family)
                    self.violate(m.prop, f'{self.case["family"]}.{m.clause}', m.detail, m.keys)
            elif m.prop in props:
                self.violate(m.prop, m.clause, m.detail, m.keys)
            else:
                self.res.notes.append(repr(m))
        self.probe('audits')
        return ref, undo

    def op_sync(self, op):
        """Catch up in a fault-free window, then audit."""
        ok = self.quiesce(op.get('limit'))
        if not ok:
            srv = self.w.server
            h = srv.db.state.height if srv and srv.db and srv.db.state else None
            self.violate(self.LIVENESS_PROP, 'liveness.catchup',
                         f'not caught up within {self.last_sync_limit:.0f} virtual s: '
                         f'db height {h} daemon {self.w.daemon.height} exits {self.w.server_exits[-3:]} '
                         f'state {self.w.why_not_caught_up()}')
            return
        self.mark('sync', self.w.daemon.height)
        self.do_audit(self.AUDIT_PROPS)
        self.resume_faults()

    def resume_faults(self):
        w = self.w
        w.faults.enabled = True
        w.sim.stall_p = w.k['stall_p']
        w.sim.line_stall_p = float(w.k.get('line_stall_p') or 0.0)
        w.sim.queue_p = float(w.k.get('queue_p') or 0.0)
        w.sim.stall_boost = tuple(w.k['stall_boost']) if w.k.get('stall_boost') else None

    LIVENESS_PROP = 'C01'
    AUDIT_PROPS = ('C01', 'C02', 'C03')
    ATTRIBUTE_TO = None

    def op_sigterm(self, op):
        self.w.sigterm()

    def op_stop(self, op):
        """Clean shutdown through the real SIGTERM path; waits for the process to exit."""
        w = self.w
        if w.server is None:
            return
        if not w.sigterm():
            # no handler installed yet: the default disposition kills the process
            self.probe('sigterm.killed_before_handler')
            w.crash()
            return
        r = w.run(None, 600.0)
        if r == 'timeout':
            self.violate('C06', 'shutdown.hangs', 'server did not exit within 600 virtual s')
            w.crash()

    def op_restart(self, op):
        self.op_stop(op)
        if self.w.server is None:
            self.w.start()
