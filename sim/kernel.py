"""Deterministic simulation kernel: one choice stream, virtual time, a virtual-time asyncio
event loop, and worker "threads" that are real threads serialised by baton passing.

Nothing in here knows about ElectrumX.  See DESIGN.md section 3.
"""
import asyncio
import collections
import gc
import hashlib
import heapq
import random
import sys
import threading
from asyncio import base_events


class SimCrash(SystemExit):
    """Simulated process death.  Derives from SystemExit so asyncio re-raises it out of
    tasks, handles and run_forever() instead of storing it in a future."""


class HarnessError(Exception):
    """The harness itself is broken or was used against code it does not understand.
    Never a property verdict."""


class Chooser:
    """The single source of nondeterminism of a run.

    Search mode: values are drawn from a PRNG seeded by one integer and recorded.
    Replay mode: values are taken from a recorded list (clamped to range, padded with 0).
    The value 0 always means "the simplest thing": the event loop runs first, minimum latency,
    no fault, no tear.
    """

    def __init__(self, seed=0, replay=None):
        self.seed = seed
        self.rng = random.Random(seed)
        self.replay = replay
        self.pos = 0
        self.rec = []

    def _draw(self, n):
        if n <= 1:
            return 0
        if self.replay is not None:
            v = self.replay[self.pos] if self.pos < len(self.replay) else 0
            self.pos += 1
            if v >= n:
                v %= n
        else:
            v = self.rng.randrange(n)
        self.rec.append(v)
        return v

    def choose(self, n):
        return self._draw(n)

    def chance(self, p):
        if p <= 0:
            return False
        k = int(p * 4096)
        return self._draw(4096) >= 4096 - k

    def delay(self, lo, hi):
        if hi <= lo:
            return lo
        return lo + (hi - lo) * self._draw(256) / 255.0

    def pick(self, seq):
        return seq[self._draw(len(seq))]


class _PoolThread:
    """A reusable real thread.  It only ever runs while it holds the baton."""

    def __init__(self, sim):
        self.sim = sim
        self.go = threading.Semaphore(0)
        self.worker = None
        self.thread = threading.Thread(target=self._main, daemon=True)
        self.thread.start()

    def _main(self):
        sim = self.sim
        while True:
            self.go.acquire()
            w = self.worker
            if w is None:       # shutdown request
                sim.main_go.release()
                return
            sim.current.w = w
            tracer = sim.line_tracer
            if tracer is not None:
                sys.settrace(tracer)
            try:
                if sim.dead:
                    raise SimCrash('dead')
                w.result = w.func(*w.args)
            except BaseException as e:   # noqa: B902 - a job may raise anything
                w.exc = e
            finally:
                if tracer is not None:
                    sys.settrace(None)
            sim.current.w = None
            w.done = True
            self.worker = None
            sim.main_go.release()


class Worker:
    """One run_in_executor job."""

    __slots__ = ('sim', 'wid', 'func', 'args', 'fut', 'done', 'result', 'exc', 'blocked_until',
                 'steps', 'pt', 'tag', 'started', 'at_seam', 'origin', 'release_on')

    def __init__(self, sim, wid, func, args, fut):
        self.sim, self.wid, self.func, self.args, self.fut = sim, wid, func, args, fut
        self.done = False
        self.result = None
        self.exc = None
        self.blocked_until = 0.0
        self.steps = 0
        self.pt = None
        self.started = False
        self.at_seam = None
        self.release_on = False
        self.tag = getattr(func, '__qualname__', None) or getattr(
            getattr(func, 'func', None), '__qualname__', repr(func))
        # who asked for the job: the qualified name of the coroutine of the submitting task
        try:
            t = asyncio.current_task()
            self.origin = getattr(t.get_coro(), '__qualname__', '') if t is not None else ''
        except RuntimeError:
            self.origin = ''

    def yield_point(self, tag):
        # Runs on the worker thread: hand the baton back and wait for it.
        sim = self.sim
        self.steps += 1
        self.at_seam = tag
        sim.main_go.release()
        self.pt.go.acquire()
        self.at_seam = None
        if sim.dead:
            raise SimCrash('dead')


class Sim:
    """Simulation state shared by the loop, the seams and the environment models."""

    def __init__(self, chooser, *, preempt=True, stall_p=0.0, line_p=0.0, loop_seam_p=0.0,
                 trace=False):
        self.ch = chooser
        self.now = 0.0
        self.wall_offset = 0.0
        self.preempt = preempt
        self.stall_p = stall_p          # probability that a worker step is followed by a stall
        self.stall_max = 12.0
        self.line_stall_p = 0.0         # chance that a line-level pre-emption also parks the thread for a while
        self.queue_p = 0.0              # chance that a job waits in the executor's queue before it starts
        self.ioerr_hook = None          # (tag, detail) -> True: this durable operation fails with ENOSPC
        self.alloc_hook = None          # (tag, detail) -> True: this allocation fails (MemoryError)
        self.commit_batch = None        # the write batch whose commit is the current / latest durable operation
        self.stall_boost = None         # (job tag suffix, probability[, substring of the submitting task's coroutine name])
        self.line_p = line_p            # line-granularity pre-emption probability (0 = off)
        self.loop_seam_p = loop_seam_p  # probability to run a worker step at a loop-thread seam
        self.workers = []
        self.wseq = 0
        self.pool = []
        self.main_go = threading.Semaphore(0)
        self.current = threading.local()
        self.dead = False
        self.epoch = 0
        self.events = []                # heap of (time, seq, fn)
        self.eseq = 0
        self.stats = collections.Counter()
        self.probes = collections.Counter()
        self.trace = [] if trace else None
        self._digest = hashlib.blake2b(digest_size=16)
        self.nlog = 0
        self.dops = 0                   # durable operations so far (all incarnations)
        self.crash_at_dop = None        # crash when the dop counter reaches this value
        self.crash_hook = None          # fn(tag, detail) -> bool, consulted at every durable op
        self.dop_observer = None        # fn(tag, detail): monitor, called for every durable op
        self.step_hooks = []            # fn() called at every scheduling point
        self.steps = 0
        self.max_steps = 5_000_000
        self.loop = None
        self.line_tracer = self._make_line_tracer() if line_p > 0 else None
        self.in_loop_seam = False
        self.fast_seams = True          # skip thread switches that cannot change the outcome

    # -- event log (never draws choices, never reads a clock)
    def log(self, *items):
        s = repr(items)
        self._digest.update(s.encode())
        self.nlog += 1
        if self.trace is not None:
            self.trace.append((round(self.now, 6), self.steps) + items)

    def digest(self):
        return self._digest.hexdigest()

    # -- time
    def time(self):
        return self.now

    EPOCH = 1_600_000_000.0

    def wall(self):
        return self.EPOCH + self.now + self.wall_offset

    def at(self, delay, fn):
        self.eseq += 1
        heapq.heappush(self.events, (self.now + max(0.0, delay), self.eseq, fn))

    # -- durable operations and crash injection
    def durable_op(self, tag, detail=None):
        """Called by the storage seams immediately BEFORE a durable mutation is applied.
        Raises SimCrash (and marks the epoch dead) if the crash plan says so; the seam then
        applies nothing (or a torn prefix, decided by the seam before calling)."""
        if self.dead:
            raise SimCrash('dead')
        self.dops += 1
        if self.dop_observer is not None:
            self.dop_observer(tag, detail)
        hit = (self.crash_at_dop is not None and self.dops == self.crash_at_dop)
        if not hit and self.crash_hook is not None:
            hit = self.crash_hook(tag, detail)
        if hit:
            self.log('CRASH', tag, self.dops)
            self.stats['crash'] += 1
            self.dead = True
            raise SimCrash(tag)
        if self.ioerr_hook is not None and self.ioerr_hook(tag, detail):
            # a disk error (full disk): the operation fails, nothing of it is applied, the process lives on
            self.log('IOERR', tag, self.dops)
            self.stats['io_error'] += 1
            raise OSError(28, 'No space left on device')

    def alloc_point(self, tag, detail=None):
        """Called where the storage seam allocates while a write batch is being assembled: a failing
        allocation raises MemoryError out of the middle of the `with` block."""
        if self.alloc_hook is not None and not self.dead and self.alloc_hook(tag, detail):
            self.log('ALLOCFAIL', tag, detail[0] if isinstance(detail, tuple) else detail)
            self.stats['alloc_fail'] += 1
            raise MemoryError('simulated allocation failure')

    def crash_now(self, why='external'):
        self.log('CRASH', why)
        self.stats['crash'] += 1
        self.dead = True

    # -- seam yield: called by storage seams on whatever thread they run on
    def seam(self, tag):
        if self.dead:
            raise SimCrash('dead')
        w = getattr(self.current, 'w', None)
        if w is not None:
            if self.preempt:
                p = self.stall_p
                sb = self.stall_boost
                boosted = bool(sb and w.tag.endswith(sb[0]) and (len(sb) < 3 or sb[2] in w.origin))
                if boosted:
                    # buggify: this kind of job (optionally: only when asked for by this kind of task) is
                    # slow in this run
                    p = max(p, sb[1])
                if p and tag not in ('fs.read', 'db.get') and self.ch.chance(p):
                    d = self.ch.delay(0.001, self.stall_max)
                    if boosted and len(sb) > 3 and sb[3] == 'release':
                        # parked until a job of some other task completes (or the longest stall has passed):
                        # slow reads come back right after the state they read has changed
                        d = self.stall_max
                        w.release_on = True
                    w.blocked_until = self.now + d
                    self.stats['stall'] += 1
                    self.log('Wstall', w.wid, round(d, 4))
                elif (self.fast_seams and len(self.workers) == 1 and not self.loop._ready
                      and not self.loop._stopping):
                    # nobody else could run here: pre-empting would change nothing
                    self.stats['seam_fast'] += 1
                    return
                self.stats['yield'] += 1
                w.yield_point(tag)
        elif self.loop_seam_p and self.workers and not self.in_loop_seam:
            # The event-loop thread is at a storage call: real worker threads may run here.
            self.in_loop_seam = True
            try:
                while self.workers and self.ch.chance(self.loop_seam_p):
                    runnable = [x for x in self.workers if x.blocked_until <= self.now]
                    if not runnable:
                        break
                    self.stats['loop_seam_step'] += 1
                    self.step_worker(runnable[self.ch.choose(len(runnable))])
            finally:
                self.in_loop_seam = False

    def _make_line_tracer(self):
        sim = self

        def local(frame, event, arg):
            if event == 'line' and not sim.dead:
                w = getattr(sim.current, 'w', None)
                if w is not None and sim.ch.chance(sim.line_p):
                    if sim.line_stall_p and sim.ch.chance(sim.line_stall_p):
                        # the thread is descheduled for a while between two source lines: a pure-Python job
                        # (no storage call) otherwise takes no virtual time and can never overlap timer-driven
                        # activity of the event loop
                        w.blocked_until = sim.now + sim.ch.delay(0.001, sim.stall_max)
                        sim.stats['stall'] += 1
                        sim.stats['line_stall'] += 1
                    elif (sim.fast_seams and len(sim.workers) == 1 and not sim.loop._ready
                            and not sim.loop._stopping):
                        return local
                    sim.stats['line_yield'] += 1
                    w.yield_point('line')
            return local

        def tracer(frame, event, arg):
            if event == 'call' and '/electrumx/' in frame.f_code.co_filename:
                return local
            return None
        return tracer

    # -- workers (called on the loop thread)
    def submit(self, func, args, fut):
        self.wseq += 1
        w = Worker(self, self.wseq, func, args, fut)
        self.workers.append(w)
        self.log('W+', w.wid, w.tag)
        if self.queue_p and self.preempt:
            # a busy thread pool: the job waits in the executor's queue for a while before it starts (the only
            # way a job without any storage call - a pure computation - can take time)
            sb = self.stall_boost
            if (not sb or len(sb) < 3 or sb[2] in w.origin) and self.ch.chance(self.queue_p):
                w.blocked_until = self.now + self.ch.delay(0.001, self.stall_max)
                self.stats['stall'] += 1
                self.stats['queue_stall'] += 1
        return w

    def _bind(self, w):
        pt = self.pool.pop() if self.pool else _PoolThread(self)
        pt.worker = w
        w.pt = pt
        w.started = True

    def step_worker(self, w):
        if not w.started:
            self._bind(w)
        pt = w.pt
        pt.go.release()
        self.main_go.acquire()
        self.stats['wstep'] += 1
        if w.done:
            self.workers.remove(w)
            self.pool.append(pt)
            w.pt = None
            self.log('W-', w.wid, type(w.exc).__name__ if w.exc is not None else None)
            if isinstance(w.exc, SimCrash):
                self.dead = True
                raise w.exc
            if not w.fut.cancelled():
                if w.exc is not None:
                    w.fut.set_exception(w.exc)
                else:
                    w.fut.set_result(w.result)
            w.func = w.args = None
            for y in self.workers:
                if y.release_on and y.origin != w.origin and y.blocked_until > self.now and self.ch.chance(0.5):
                    y.release_on = False
                    y.blocked_until = self.now + self.ch.delay(0.0, 0.05)
                    self.stats['stall_released'] += 1
                    self.log('Wrel', y.wid, w.wid)
        else:
            self.log('Wy', w.wid, w.at_seam)

    def kill_workers(self):
        """After a crash: let every parked job unwind (its next seam call raises SimCrash)."""
        self.dead = True
        for w in list(self.workers):
            if w.started:
                while not w.done:
                    w.pt.go.release()
                    self.main_go.acquire()
                self.pool.append(w.pt)
                w.pt = None
            if not w.fut.done():
                w.fut.cancel()
        self.workers.clear()

    def shutdown_pool(self):
        for pt in self.pool:
            pt.worker = None
            pt.go.release()
            self.main_go.acquire()
            pt.thread.join()
        self.pool.clear()


class SimTask(asyncio.Task):
    """Task with a deterministic hash: aiorpcX keeps tasks in sets and cancels in set order."""

    def __init__(self, coro, *, loop=None, name=None, context=None):
        loop._task_seq += 1
        self._sim_seq = loop._task_seq
        super().__init__(coro, loop=loop, name=name or f'T{self._sim_seq}', context=context)

    def __hash__(self):
        return self._sim_seq

    def __eq__(self, other):
        return self is other


def _task_factory(loop, coro, **kw):
    return SimTask(coro, loop=loop, **kw)


class SimLoop(base_events.BaseEventLoop):
    """A virtual-time event loop.  One handle per iteration with a scheduling point before each;
    when idle the clock jumps to the next timer / simulator event / worker wake-up."""

    def __init__(self, sim):
        super().__init__()
        self.sim = sim
        sim.loop = self
        self._task_seq = 0
        self.set_task_factory(_task_factory)
        self._clock_resolution = 1e-9
        self.signal_handlers = {}
        self.idle_deadlock = False

    def time(self):
        return self.sim.now

    def _process_events(self, event_list):
        pass

    def _write_to_self(self):
        pass

    def call_soon_threadsafe(self, callback, *args, context=None):
        return self.call_soon(callback, *args, context=context)

    def add_signal_handler(self, sig, callback, *args):
        self.signal_handlers[sig] = (callback, args)

    def remove_signal_handler(self, sig):
        return self.signal_handlers.pop(sig, None) is not None

    def run_in_executor(self, executor, func, *args):
        fut = self.create_future()
        self.sim.submit(func, args, fut)
        return fut

    async def shutdown_default_executor(self, timeout=None):
        sim = self.sim
        while sim.workers:
            w = sim.workers[0]
            if w.blocked_until > sim.now:
                sim.now = w.blocked_until
            sim.step_worker(w)

    # Real sockets must be unreachable
    def _no_net(self, *a, **kw):
        raise HarnessError('real network access attempted inside the simulation')
    sock_connect = sock_sendall = sock_recv = sock_accept = _no_net
    create_datagram_endpoint = create_unix_connection = create_unix_server = _no_net

    async def create_server(self, *a, **kw):
        raise HarnessError('create_server without a simulated network')

    async def create_connection(self, *a, **kw):
        raise HarnessError('create_connection without a simulated network')

    async def getaddrinfo(self, *a, **kw):
        raise HarnessError('getaddrinfo without a simulated resolver')

    def _run_once(self):
        sim = self.sim
        sched = self._scheduled
        ready = self._ready
        events = sim.events
        while True:
            sim.steps += 1
            if sim.steps > sim.max_steps:
                raise HarnessError('step budget exhausted')
            # due simulator events and timers become ready first, as in asyncio
            now = sim.now
            while events and events[0][0] <= now:
                _, _, fn = heapq.heappop(events)
                fn()
            while sched and (sched[0]._cancelled or sched[0]._when <= now):
                h = heapq.heappop(sched)
                h._scheduled = False
                if h._cancelled:
                    self._timer_cancelled_count -= 1
                else:
                    ready.append(h)
            for hook in sim.step_hooks:
                hook()
            if sim.dead:
                raise SimCrash('dead')
            workers = sim.workers
            loop_ready = bool(ready) or self._stopping
            if workers:
                runnable = [w for w in workers if w.blocked_until <= now]
                if runnable:
                    # choice 0 = the event loop goes first
                    if loop_ready:
                        k = sim.ch.choose(len(runnable) + 1)
                    else:
                        k = 1 + sim.ch.choose(len(runnable))
                    if k:
                        sim.step_worker(runnable[k - 1])
                        continue
            if loop_ready:
                break
            # idle: advance virtual time to the next thing
            t = None
            if sched:
                t = sched[0]._when
            if events and (t is None or events[0][0] < t):
                t = events[0][0]
            for w in workers:
                if t is None or w.blocked_until < t:
                    t = w.blocked_until
            if t is None:
                self.idle_deadlock = True
                raise HarnessError('simulation deadlock: nothing runnable, no timer, no event')
            if t > sim.now:
                sim.now = t
        if ready:
            h = ready.popleft()
            if not h._cancelled:
                h._run()
                if sim.dead:
                    raise SimCrash('dead')
        h = None

    # -- helpers for the supervisor
    def abandon(self):
        """Process death: unwind parked worker jobs, finalise every pending coroutine now (in the
        dead epoch, so nothing they do has an effect) and drop the loop."""
        sim = self.sim
        sim.kill_workers()
        tasks = sorted((t for t in asyncio.all_tasks(self)), key=lambda t: t._sim_seq)
        for t in tasks:
            t._log_destroy_pending = False
        for t in tasks:
            coro = t.get_coro()
            try:
                coro.close()
            except BaseException:   # noqa: B902 - finalisers of a dead process
                pass
        self._ready.clear()
        self._scheduled.clear()
        try:
            asyncio.set_event_loop(None)
            if not self.is_closed() and not self.is_running():
                self.close()
        except BaseException:   # noqa: B902
            pass
        gc.collect()


def drain(loop):
    """What asyncio.run() does after the main coroutine returned."""
    tasks = sorted(asyncio.all_tasks(loop), key=lambda t: t._sim_seq)
    for t in tasks:
        t.cancel()
    if tasks:
        loop.run_until_complete(asyncio.gather(*tasks, return_exceptions=True))
    loop.run_until_complete(loop.shutdown_asyncgens())
    loop.run_until_complete(loop.shutdown_default_executor())
