"""Model bitcoind (block tree, best-chain switches, mempool, JSON-RPC and REST semantics) and the
fake aiohttp layer through which the real electrumx Daemon class talks to it, with fault
injection per request.  See DESIGN.md 3.5 and 4.2.
"""
import asyncio
import json
import struct
import types

import aiohttp

from sim.chaingen import Tx, ZERO32, hex_hash, unspendable


def parse_tx(raw):
    """Independent parser for client-submitted transactions. Raises on malformed input."""
    pos = 0

    def rd(n):
        nonlocal pos
        if pos + n > len(raw):
            raise ValueError('truncated')
        b = raw[pos:pos + n]
        pos += n
        return b

    def vi():
        n = rd(1)[0]
        if n < 253:
            return n
        if n == 253:
            return struct.unpack('<H', rd(2))[0]
        if n == 254:
            return struct.unpack('<I', rd(4))[0]
        return struct.unpack('<Q', rd(8))[0]

    version = struct.unpack('<i', rd(4))[0]
    ins = []
    for _ in range(vi()):
        ph = rd(32)
        pi = struct.unpack('<I', rd(4))[0]
        scr = rd(vi())
        seq = struct.unpack('<I', rd(4))[0]
        ins.append((ph, pi, scr, seq))
    outs = []
    for _ in range(vi()):
        v = struct.unpack('<q', rd(8))[0]
        outs.append((v, rd(vi())))
    lock = struct.unpack('<I', rd(4))[0]
    if pos != len(raw):
        raise ValueError('trailing bytes')
    return Tx(ins, outs, locktime=lock, version=version)


class SimDaemon:
    def __init__(self, tree, *, orphans_return=True, txindex=True):
        self.tree = tree
        self.tip = None
        self.mempool = {}           # txid -> Tx, insertion ordered
        self.orphans_return = orphans_return
        self.txindex = txindex
        self.version = 0            # bumped on every observable change
        self.frozen = False
        self._chain = []
        self.known_txs = {}         # every tx ever seen (for txindex lookups on the active chain)
        self.rpc_count = 0

    # -- chain
    @property
    def height(self):
        return self.tip.height if self.tip is not None else -1

    def chain(self):
        return self._chain

    def view(self):
        return self.tree.view(self.tip)

    def set_tip(self, block):
        old = self._chain
        self.tip = block
        self._chain = block.branch() if block is not None else []
        self.version += 1
        new_ids = set()
        for b in self._chain:
            for t in b.txs:
                self.known_txs[t.hash] = t
        view = self.view()
        # transactions of blocks that left the best chain
        orphaned = []
        if old:
            newset = {b.hash for b in self._chain}
            for b in old:
                if b.hash not in newset:
                    orphaned.extend(t for t in b.txs if not t.is_coinbase)
        cand = list(self.mempool.values())
        if self.orphans_return:
            cand = orphaned + cand
        self.mempool = {}
        for t in cand:
            self._try_accept(t, view)
        del new_ids

    def _mp_spent(self):
        s = set()
        for t in self.mempool.values():
            s.update(t.prevouts())
        return s

    def _try_accept(self, tx, view=None):
        view = view or self.view()
        if tx.hash in view.txids or tx.hash in self.mempool:
            return False
        spent = self._mp_spent()
        for op in tx.prevouts():
            if op in spent:
                return False
            if op in view.utxos:
                continue
            parent = self.mempool.get(op[0])
            if parent is None or op[1] >= len(parent.outs):
                return False
            v, s = parent.outs[op[1]]
            if unspendable(s, self.height + 1, self.tree.activation):
                return False
        self.mempool[tx.hash] = tx
        self.known_txs[tx.hash] = tx
        return True

    def add_mempool_tx(self, tx):
        ok = self._try_accept(tx)
        if ok:
            self.version += 1
        return ok

    def evict(self, txid):
        """Remove a tx and all its mempool descendants."""
        if txid not in self.mempool:
            return 0
        gone = {txid}
        changed = True
        while changed:
            changed = False
            for t in self.mempool.values():
                if t.hash not in gone and any(op[0] in gone for op in t.prevouts()):
                    gone.add(t.hash)
                    changed = True
        for g in gone:
            del self.mempool[g]
        self.version += 1
        return len(gone)

    def mempool_avail(self):
        """Outpoints a new mempool tx may spend: confirmed UTXOs and mempool outputs, minus
        everything already spent by the mempool.  Block-0 outputs excluded."""
        view = self.view()
        spent = self._mp_spent()
        avail = {op: v for op, v in view.utxos.items() if op not in spent and v[2] != 0}
        for t in self.mempool.values():
            for i, (v, s) in enumerate(t.outs):
                if (t.hash, i) not in spent and not unspendable(s, self.height + 1,
                                                                self.tree.activation):
                    avail[(t.hash, i)] = (s, v, -1)
        return avail

    # -- JSON-RPC
    def rpc(self, method, params):
        self.rpc_count += 1
        chain = self._chain
        if method == 'getblockcount':
            return len(chain) - 1, None
        if method == 'getblockhash':
            try:
                h = params[0]
                if isinstance(h, int) and 0 <= h < len(chain):
                    return chain[h].hex, None
            except (IndexError, TypeError):
                pass
            return None, {'code': -8, 'message': 'Block height out of range'}
        if method == 'getrawmempool':
            return [hex_hash(h) for h in self.mempool], None
        if method == 'getrawtransaction':
            try:
                txid = bytes.fromhex(params[0])[::-1]
            except (ValueError, TypeError, IndexError):
                return None, {'code': -8, 'message': 'parameter 1 must be hexadecimal string'}
            t = self.mempool.get(txid)
            if t is None and self.txindex and txid in self.view().txids:
                t = self.known_txs.get(txid)
            if t is not None:
                if len(params) > 1 and params[1]:
                    return {'hex': t.raw.hex(), 'txid': hex_hash(t.hash)}, None
                return t.raw.hex(), None
            return None, {'code': -5, 'message': 'No such mempool or blockchain transaction'}
        if method == 'sendrawtransaction':
            try:
                tx = parse_tx(bytes.fromhex(params[0]))
            except (ValueError, TypeError, IndexError, struct.error):
                return None, {'code': -22, 'message': 'TX decode failed'}
            if tx.hash in self.mempool:
                return None, {'code': -27, 'message': 'Transaction already in the mempool'}
            if not tx.prevouts() or not self.add_mempool_tx(tx):
                return None, {'code': -25, 'message': 'Missing inputs'}
            return hex_hash(tx.hash), None
        if method == 'getnetworkinfo':
            return {'version': 101001600, 'subversion': '/Bitcoin SV:1.0.16/'}, None
        return None, {'code': -32601, 'message': 'Method not found'}


# ---- fake aiohttp ---------------------------------------------------------------------------

FAULTS = ('timeout', 'disconnect', 'reset', 'connerr', 'clienterr', 'http500', 'warmup',
          'midbody')


class FaultPlan:
    """Decides, per HTTP request, whether and how it fails.  `script` (a list) is consumed
    first (None entries = no fault); afterwards faults fire with probability `rate`."""

    def __init__(self, sim, rate=0.0, kinds=FAULTS, script=None, per_url=None):
        self.sim = sim
        self.rate = rate
        self.kinds = tuple(kinds)
        self.script = list(script) if script else []
        self.per_url = per_url or {}     # url -> state in ('up','down','warming','refusing')
        self.fired = []
        self.enabled = True

    def next(self, url, is_rest):
        if self.script:
            f = self.script.pop(0)
        else:
            state = self.per_url.get(url, 'up')
            if state == 'down':
                f = 'connerr'
            elif state == 'warming':
                f = 'warmup'
            elif state == 'refusing':
                f = 'http500'
            elif self.enabled and self.rate and self.sim.ch.chance(self.rate):
                f = self.kinds[self.sim.ch.choose(len(self.kinds))]
            else:
                f = None
        if f == 'warmup' and is_rest:
            f = 'http500'
        if f == 'midbody' and not is_rest:
            f = 'clienterr'
        if f:
            self.fired.append(f)
            self.sim.stats['dfault.' + f] += 1
            self.sim.log('DFAULT', f)
        return f


class _Content:
    def __init__(self, resp, chunks, cut):
        self.resp, self.chunks, self.cut = resp, chunks, cut

    async def iter_chunks(self):
        sim = self.resp.sim
        for n, c in enumerate(self.chunks):
            await asyncio.sleep(sim.ch.delay(0.0, self.resp.lat[1] / 4))
            if self.cut is not None and n == self.cut:
                self.resp.net.inflight -= 1
                self.resp.counted = False
                raise aiohttp.ClientPayloadError('Response payload is not completed')
            yield c, True

    async def readchunk(self):
        """aiohttp's StreamReader.readchunk(): (data, end_of_http_chunk).  With chunked transfer encoding the end of
        a chunk can arrive apart from its data - (b'', True) in the middle of the body; only (b'', False) is the end
        of the body."""
        sim = self.resp.sim
        st = self.__dict__.setdefault('_rc', dict(i=0, pending_end=False))
        if st['pending_end']:
            st['pending_end'] = False
            await asyncio.sleep(sim.ch.delay(0.0, self.resp.lat[1] / 4))
            return b'', True
        if st['i'] >= len(self.chunks):
            return b'', False
        n = st['i']
        st['i'] += 1
        await asyncio.sleep(sim.ch.delay(0.0, self.resp.lat[1] / 4))
        if self.cut is not None and n == self.cut:
            self.resp.net.inflight -= 1
            self.resp.counted = False
            raise aiohttp.ClientPayloadError('Response payload is not completed')
        if sim.ch.chance(0.3):
            st['pending_end'] = True
            return self.chunks[n], False
        return self.chunks[n], True


class _Resp:
    def __init__(self, net, url, maker, is_rest, methods=()):
        self.net, self.sim, self.url, self.maker, self.is_rest = net, net.sim, url, maker, is_rest
        self.methods = methods
        self.lat = net.latency
        self.headers = {}
        self.reason = 'OK'
        self.body = None
        self.content = None
        self.counted = False
        self.status = 200

    async def __aenter__(self):
        net, sim = self.net, self.sim
        net.requests += 1
        net.inflight += 1
        self.counted = True
        fault = net.faults.next(self.url, self.is_rest) if net.faults else None
        try:
            if fault == 'timeout':
                await asyncio.sleep(sim.ch.delay(1.0, 30.0))
                raise asyncio.TimeoutError()
            extra = net.take_slow(self.methods) if net.slow else 0.0
            await asyncio.sleep(sim.ch.delay(self.lat[0], self.lat[1]) + extra)
            if fault == 'disconnect':
                raise aiohttp.ServerDisconnectedError()
            if fault == 'reset':
                raise ConnectionResetError(104, 'Connection reset by peer')
            if fault == 'connerr':
                raise aiohttp.ClientConnectionError('Cannot connect to host')
            if fault == 'clienterr':
                raise aiohttp.ClientPayloadError('Response payload is not completed')
        except BaseException:
            net.inflight -= 1
            self.counted = False
            raise
        if fault == 'http500':
            self.headers = {'Content-Type': 'text/html'}
            self.reason = 'Internal Server Error'
            self.body = ' Work queue depth exceeded '
            self.status = 500
            return self
        # the reply is computed from the daemon's state at the reply instant
        ctype, body = self.maker(fault)
        self.headers = {'Content-Type': ctype}
        # HTTP status as bitcoind sets it: a single request answered with a JSON-RPC error comes with 500 (404 for an
        # unknown method, 400 for an invalid request), a batch always with 200; an unknown REST object with 404
        if isinstance(body, dict) and body.get('error'):
            code = body['error'].get('code')
            self.status = 404 if code == -32601 else 400 if code == -32600 else 500
        elif self.is_rest and ctype != 'application/octet-stream':
            self.status = 404
        if self.is_rest and ctype == 'application/octet-stream':
            n = sim.ch.choose(5) + 1
            sz = max(1, -(-len(body) // n))
            chunks = [body[i:i + sz] for i in range(0, len(body), sz)] or [b'']
            cut = sim.ch.choose(len(chunks)) if fault == 'midbody' else None
            self.content = _Content(self, chunks, cut)
        else:
            self.body = body
        return self

    async def __aexit__(self, *a):
        if self.counted:
            self.net.inflight -= 1
            self.counted = False

    async def json(self):
        return self.body

    async def text(self):
        return self.body if isinstance(self.body, str) else ''


class DaemonNet:
    """The HTTP side: url -> SimDaemon, latency, faults, bookkeeping of requests in flight."""

    def __init__(self, sim, daemons, faults=None, latency=(0.0005, 0.05)):
        self.sim = sim
        self.daemons = daemons      # base url (with trailing /) -> SimDaemon
        self.faults = faults
        self.latency = latency
        self.requests = 0
        self.inflight = 0
        self.served = []            # (url, kind) of successfully served requests, for C18
        # fault placement inside operations: one-shot callbacks run right after a given RPC method has been
        # answered (the world changes between two calls of one server operation), and one-shot extra
        # latencies for the next request carrying a given method (a slow round trip)
        self.rpc_triggers = []      # dicts: method, skip, fn
        self.slow = []              # [method, extra seconds]

    def after_rpc(self, method):
        for t in list(self.rpc_triggers):
            if t['method'] == method:
                if t['skip'] > 0:
                    t['skip'] -= 1
                else:
                    self.rpc_triggers.remove(t)
                    t['fn']()

    def take_slow(self, methods):
        for e in list(self.slow):
            if e[0] in methods:
                self.slow.remove(e)
                self.sim.stats['slow_rpc'] += 1
                return e[1]
        return 0.0

    def daemon_for(self, url):
        for base, d in self.daemons.items():
            if url.startswith(base):
                return base, d
        raise aiohttp.ClientConnectionError(f'no such host {url}')

    def make_session_class(net):
        class ClientSession:
            def __init__(self, connector=None, **kw):
                self.closed = False

            async def close(self):
                self.closed = True

            def post(self, url, data=None, **kw):
                base, daemon = net.daemon_for(url)

                req = json.loads(data)
                methods = [r.get('method') for r in (req if isinstance(req, list) else [req])
                           if isinstance(r, dict)]

                def rpc(r):
                    out = daemon.rpc(r.get('method'), r.get('params', []))
                    if net.rpc_triggers:
                        net.after_rpc(r.get('method'))
                    return out

                def maker(fault):
                    def one(r):
                        if fault == 'warmup':
                            return {'result': None, 'id': r.get('id'),
                                    'error': {'code': -28, 'message': 'Loading block index...'}}
                        res, err = rpc(r)
                        return {'result': res, 'error': err, 'id': r.get('id')}
                    if isinstance(req, list):
                        if fault == 'warmup':
                            # only some items of a batch need carry the warming-up error
                            k = net.sim.ch.choose(len(req))
                            out = []
                            for i, r in enumerate(req):
                                if i == k:
                                    out.append(one(r))
                                else:
                                    res, err = rpc(r)
                                    out.append({'result': res, 'error': err, 'id': r.get('id')})
                            body = out
                        else:
                            body = [one(r) for r in req]
                    else:
                        body = one(req)
                    net.served.append((base, 'rpc', net.sim.steps))
                    return 'application/json', body
                return _Resp(net, url, maker, False, methods)

            def get(self, url, **kw):
                base, daemon = net.daemon_for(url)

                def maker(fault):
                    name = url.rsplit('/', 1)[1]
                    blk = daemon.tree.by_hex.get(name[:-4]) if name.endswith('.bin') else None
                    if blk is None:
                        return 'text/plain', 'Block not found'
                    net.served.append((base, 'rest', net.sim.steps))
                    if net.rpc_triggers:
                        net.after_rpc('rest')
                    return 'application/octet-stream', blk.raw
                return _Resp(net, url, maker, True, ['rest'])
        return ClientSession

    def shim(self):
        ns = types.SimpleNamespace()
        for k in ('ServerDisconnectedError', 'ClientConnectionError', 'ClientError',
                  'ClientPayloadError', 'ClientOSError'):
            setattr(ns, k, getattr(aiohttp, k))
        ns.ClientSession = self.make_session_class()
        return ns
